package ref

import (
	"math"
	"math/big"
	"testing"
)

func TestAncestorFloor(t *testing.T) {
	cases := []struct{ i, d, want int64 }{{-1, 1, -1}, {-1, 5, -1}, {-2, 1, -1}, {-3, 1, -2}, {3, 1, 1}, {0, 3, 0}, {-8, 3, -1}, {-9, 3, -2}, {7, 0, 7}}
	for _, c := range cases {
		if g := Ancestor(c.i, c.d); g != c.want {
			t.Errorf("Ancestor(%d,%d)=%d want %d", c.i, c.d, g, c.want)
		}
	}
}

func TestZoomAndOverlap(t *testing.T) {
	b := Box{1, 1, 0, 2, -1}
	z := Zoom(b, 2, 1)
	if len(z) != 4 {
		t.Fatalf("zoom count %d", len(z))
	}
	for _, c := range z {
		if c.F != -1 || c.V != 1 || c.H != 2 || c.X < 2 || c.X > 3 || c.Y < 0 || c.Y > 1 {
			t.Errorf("bad cell %+v", c)
		}
		if !Overlap(b, c) {
			t.Errorf("no overlap %+v", c)
		}
	}
	if Overlap(Box{1, 0, 0, 2, -1}, Box{1, 0, 0, 1, 0}) {
		t.Error("f=-1@2 must not overlap f=0@1")
	}
	if !Overlap(Box{1, 0, 0, 2, -1}, Box{1, 0, 0, 1, -1}) {
		t.Error("f=-1@2 must overlap f=-1@1")
	}
	if !Contains(Box{0, 0, 0, 0, -1}, Box{3, 7, 7, 5, -32}) || Contains(Box{0, 0, 0, 0, 0}, Box{3, 7, 7, 5, -32}) {
		t.Error("contains")
	}
}

func TestMerge(t *testing.T) {
	in := []Box{{1, 0, 0, 2, -1}, {1, 0, 0, 2, 0}}
	m := Merge(in, 1, 1)
	if len(m) != 2 {
		t.Errorf("straddling pair must not merge: %v", SortedExt(m))
	}
	in = []Box{{1, 0, 0, 2, -2}, {1, 0, 0, 2, -1}}
	m = Merge(in, 1, 1)
	if _, ok := m[Box{1, 0, 0, 1, -1}]; !ok || len(m) != 1 {
		t.Errorf("pair -2,-1 must merge to -1: %v", SortedExt(m))
	}
	in = []Box{{0, 0, 0, 3, 1}, {2, 0, 0, 1, 0}}
	m = Merge(in, 1, 1)
	if len(m) != 2 {
		t.Errorf("ineligible + sparse: %v", SortedExt(m))
	}
	if !SameRegion([]Box{{1, 0, 0, 1, -1}}, []Box{{1, 0, 0, 2, -2}, {1, 0, 0, 2, -1}}) {
		t.Error("SameRegion")
	}
	if SameRegion([]Box{{1, 0, 0, 1, 0}}, []Box{{1, 0, 0, 2, -1}, {1, 0, 0, 2, 0}}) {
		t.Error("SameRegion must differ")
	}
}

func TestShiftQuadkey(t *testing.T) {
	if g := Shift(Box{2, 0, 3, 5, -1}, -1, 1, -3); g != (Box{2, 3, 0, 5, -4}) {
		t.Errorf("shift %+v", g)
	}
	if g := Shift(Box{0, 0, 0, 0, 0}, 5, -7, 1); g != (Box{0, 0, 0, 0, 1}) {
		t.Errorf("shift h0 %+v", g)
	}
	// documented example: 6/24/53 -> 2914
	if k := Quadkey(6, 24, 53); k != 2914 {
		t.Errorf("quadkey %d", k)
	}
	x, y := UnQuadkey(6, 2914)
	if x != 24 || y != 53 {
		t.Errorf("unquadkey %d %d", x, y)
	}
	if k := Quadkey(3, 1, 0); k != 1 {
		t.Errorf("leading zeros %d", k)
	}
}

func TestAltRanges(t *testing.T) {
	// f=0 @ z=24 is [0,2) m; keys at zoom 24 with E=25, off=1 are [2k-1, 2k+1): keys 0 and 1
	lo, hi := KeysCovering(SpatialCell(24, 0), 24, 25, 1)
	if lo.Int64() != 0 || hi.Int64() != 1 {
		t.Errorf("keys %v %v", lo, hi)
	}
	// documented example: tile z=0 @ vZoom 23, E=25, off=8 -> f=-2 @ 23 ; off=7 -> -2..-1
	lo, hi = SpatialCovering(KeyCell(23, 0, 25, 8), 23)
	if lo.Int64() != -2 || hi.Int64() != -2 {
		t.Errorf("tile ex1 %v %v", lo, hi)
	}
	lo, hi = SpatialCovering(KeyCell(23, 0, 25, 7), 23)
	if lo.Int64() != -2 || hi.Int64() != -1 {
		t.Errorf("tile ex3 %v %v", lo, hi)
	}
	// sub-metre: key z=3 @26 (0.5m cells) off -2: [1.5+2, 2+2) = [3.5,4) -> f@26 = 7 exactly, widened [3,4) -> 6..7
	iv := KeyCell(26, 3, 25, -2)
	lo, hi = SpatialCovering(iv, 26)
	if lo.Int64() != 7 || hi.Int64() != 7 {
		t.Errorf("tile ex2 exact %v %v", lo, hi)
	}
	lo, hi = SpatialCovering(iv.Widen(), 26)
	if lo.Int64() != 6 || hi.Int64() != 7 {
		t.Errorf("tile ex2 widened %v %v", lo, hi)
	}
	if !SpatialIndexValid(2, big.NewInt(-4)) || SpatialIndexValid(2, big.NewInt(4)) || KeyIndexValid(2, big.NewInt(-1)) || !KeyIndexValid(2, big.NewInt(3)) {
		t.Error("valid")
	}
}

func TestGeo(t *testing.T) {
	// Mercator fraction: lat 0 -> 0.5; limit -> ~0
	f, _ := MercFrac(0).Float64()
	if f != 0.5 {
		t.Errorf("merc(0)=%v", f)
	}
	lim := 180 / math.Pi * (2*math.Atan(math.Exp(math.Pi)) - math.Pi/2)
	f, _ = MercFrac(lim).Float64()
	if math.Abs(f) > 1e-15 {
		t.Errorf("merc(limit)=%v", f)
	}
	for _, lat := range []float64{-85.0511287798, -60.5, -1e-10, 1e-10, 35.6812, 85.0511287798} {
		a, _ := MercFrac(lat).Float64()
		b := MercFrac64(lat)
		if math.Abs(a-b) > 2e-15 {
			t.Errorf("merc %v: %v vs %v", lat, a, b)
		}
	}
	// ln and sincos sanity
	l, _ := ln(bf().SetFloat64(10)).Float64()
	if math.Abs(l-math.Log(10)) > 1e-15 {
		t.Errorf("ln 10 = %v", l)
	}
	s, c := sinCos(bf().SetFloat64(1.25))
	sf, _ := s.Float64()
	cf, _ := c.Float64()
	if math.Abs(sf-math.Sin(1.25)) > 1e-15 || math.Abs(cf-math.Cos(1.25)) > 1e-15 {
		t.Errorf("sincos %v %v", sf, cf)
	}
	// Tokyo station at zoom 25 (values computed independently with Python fractions / math)
	r := LonIndex(139.767125, 25, 1e-13)
	if r.Index != 29804456 {
		t.Errorf("lon idx %d", r.Index)
	}
	y := LatIndex(35.681236, 25, 1e-14)
	if y.Index != 13212997 {
		t.Errorf("lat idx %d", y.Index)
	}
	if r := LonIndex(math.Nextafter(180, 0), 35, 1e-13); r.Index != (1<<35)-1 {
		t.Errorf("lon below 180: %d", r.Index)
	}
	if r := LonIndex(180, 5, 1e-13); r.Index != 0 {
		t.Errorf("lon 180: %d", r.Index)
	}
	if r := AltIndex(-0.5, 25, 0); r.Index != -1 {
		t.Errorf("alt -0.5: %d", r.Index)
	}
	if r := AltIndex(-1, 25, 0); r.Index != -1 {
		t.Errorf("alt -1: %d", r.Index)
	}
	if r := AltIndex(33554432, 0, 0); r.Index != 1 {
		t.Errorf("alt top: %d", r.Index)
	}
	if g := RowNorthLat(0, 3); math.Abs(g-lim) > 1e-12 {
		t.Errorf("north lat %v", g)
	}
	if g := ColWestLon(3, 2); g != 90 {
		t.Errorf("west lon %v", g)
	}
}
