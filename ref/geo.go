package ref

import (
	"math"
	"math/big"
)

const prec = 256

var (
	bigPi   = mustFloat("3.14159265358979323846264338327950288419716939937510582097494459230781640628620899862803482534211706798214808651")
	bigLn2  = mustFloat("0.693147180559945309417232121458176568075500134360255254120680009493393621969694715605863326996418687542147932")
	bigOne  = new(big.Float).SetPrec(prec).SetInt64(1)
	bigHalf = new(big.Float).SetPrec(prec).SetFloat64(0.5)
)

func mustFloat(s string) *big.Float {
	f, _, err := big.ParseFloat(s, 10, prec, big.ToNearestEven)
	if err != nil {
		panic(err)
	}
	return f
}

func bf() *big.Float { return new(big.Float).SetPrec(prec) }

// sinCos evaluates sin and cos by Taylor series (|x| <= ~2).
func sinCos(x *big.Float) (*big.Float, *big.Float) {
	// reduce: use x/8 then triple... keep simple: x/4 with two double-angle steps
	q := bf().Quo(x, bf().SetInt64(4))
	q2 := bf().Mul(q, q)
	// sin q
	s := bf().Set(q)
	term := bf().Set(q)
	c := bf().SetInt64(1)
	cterm := bf().SetInt64(1)
	for k := int64(1); k < 60; k++ {
		// sin term: *= -q2 / ((2k)(2k+1))
		term.Mul(term, q2)
		term.Quo(term, bf().SetInt64((2*k)*(2*k+1)))
		term.Neg(term)
		s.Add(s, term)
		// cos term: *= -q2 / ((2k-1)(2k))
		cterm.Mul(cterm, q2)
		cterm.Quo(cterm, bf().SetInt64((2*k-1)*(2*k)))
		cterm.Neg(cterm)
		c.Add(c, cterm)
	}
	for i := 0; i < 2; i++ {
		// sin 2a = 2 s c ; cos 2a = c^2 - s^2
		ns := bf().Mul(s, c)
		ns.Mul(ns, bf().SetInt64(2))
		nc := bf().Sub(bf().Mul(c, c), bf().Mul(s, s))
		s, c = ns, nc
	}
	return s, c
}

// ln evaluates the natural logarithm of x > 0.
func ln(x *big.Float) *big.Float {
	// x = m * 2^e, m in [0.5, 1)
	m := bf()
	e := x.MantExp(m)
	// bring m close to 1 by repeated square roots: ln m = 2^k ln m^(1/2^k)
	const k = 6
	for i := 0; i < k; i++ {
		m.Sqrt(m)
	}
	// ln m = 2 atanh((m-1)/(m+1))
	z := bf().Quo(bf().Sub(m, bigOne), bf().Add(m, bigOne))
	z2 := bf().Mul(z, z)
	sum := bf().Set(z)
	p := bf().Set(z)
	for n := int64(3); n < 120; n += 2 {
		p.Mul(p, z2)
		sum.Add(sum, bf().Quo(p, bf().SetInt64(n)))
	}
	sum.Mul(sum, bf().SetInt64(2))
	sum.Mul(sum, bf().SetInt64(1<<k))
	return sum.Add(sum, bf().Mul(bigLn2, bf().SetInt64(int64(e))))
}

// MercFrac returns (1 - asinh(tan(lat))/pi)/2 for lat in degrees, evaluated at 256 bits.
// 0 at the northern limit of the grid, 1 at the southern limit.
func MercFrac(latDeg float64) *big.Float {
	phi := bf().SetFloat64(latDeg)
	phi.Mul(phi, bigPi)
	phi.Quo(phi, bf().SetInt64(180))
	s, c := sinCos(phi)
	// asinh(tan) = ln(tan + sec) = ln((1 + sin)/cos)
	arg := bf().Quo(bf().Add(bigOne, s), c)
	l := ln(arg)
	l.Quo(l, bigPi)
	r := bf().Sub(bigOne, l)
	return r.Mul(r, bigHalf)
}

// MercFrac64 is the plain float64 evaluation (used to decide when the 256-bit one is needed).
func MercFrac64(latDeg float64) float64 {
	phi := latDeg * math.Pi / 180
	return (1 - math.Asinh(math.Tan(phi))/math.Pi) / 2
}

// IndexResult is the outcome of an exact index computation.
type IndexResult struct {
	Index    int64 // floor of the exact scaled position
	NearEdge bool  // the position is within the stated band of a cell edge: Index or Alt is acceptable
	Alt      int64 // the other acceptable index when NearEdge
}

// LonIndex computes floor(2^h*(lon+180)/360) exactly (lon = exact value of the float),
// folding lon = 180 to -180. bandDeg is the half-width of the tolerance band in degrees.
// The grid edge at 2^h is identified with index 0 of the wrapped grid, but an index equal
// to 2^h is never acceptable: the alternative is clamped into 0..2^h-1.
func LonIndex(lon float64, h int64, bandDeg float64) IndexResult {
	if lon == 180 {
		lon = -180
	}
	r := new(big.Rat)
	r.SetFloat64(lon)
	r.Add(r, big.NewRat(180, 1))
	r.Quo(r, big.NewRat(360, 1)) // fraction of the world in [0,1)
	n := new(big.Int).Lsh(big.NewInt(1), uint(h))
	pos := new(big.Rat).Mul(r, new(big.Rat).SetInt(n))
	idx := ratFloor(pos)
	res := IndexResult{Index: idx.Int64()}
	// distance to nearest edges in scaled units
	band := new(big.Rat)
	band.SetFloat64(bandDeg)
	band.Quo(band, big.NewRat(360, 1))
	band.Mul(band, new(big.Rat).SetInt(n))
	lower := new(big.Rat).Sub(pos, new(big.Rat).SetInt(idx)) // in [0,1)
	upper := new(big.Rat).Sub(big.NewRat(1, 1), lower)
	maxIdx := new(big.Int).Sub(n, big.NewInt(1)).Int64()
	if lower.Sign() == 0 {
		// exactly on a tile boundary: lon+180, the division by 360 and the scaling by 2^h are all exact in float64 then
		// (k*360/2^h, k/2^h and k are representable), so floor puts the point into the eastern tile - no band
		return res
	}
	if lower.Cmp(band) <= 0 && res.Index > 0 {
		res.NearEdge, res.Alt = true, res.Index-1
	} else if upper.Cmp(band) <= 0 && res.Index < maxIdx {
		res.NearEdge, res.Alt = true, res.Index+1
	}
	return res
}

// AltIndex computes floor(alt * 2^v / 2^25) exactly. band is in metres.
func AltIndex(alt float64, v int64, bandM float64) IndexResult {
	r := new(big.Rat)
	r.SetFloat64(alt)
	pos := new(big.Rat).Mul(r, pow2Rat(v-25))
	idx := ratFloor(pos)
	res := IndexResult{Index: idx.Int64()}
	band := new(big.Rat)
	band.SetFloat64(bandM)
	band.Mul(band, pow2Rat(v-25))
	lower := new(big.Rat).Sub(pos, new(big.Rat).SetInt(idx))
	upper := new(big.Rat).Sub(big.NewRat(1, 1), lower)
	if lower.Sign() == 0 && bandM < 1e-300 {
		// exactly on a cell boundary and no real tolerance asked for (the band only covers sub-normal altitudes that
		// underflow): scaling by a power of two is exact, floor puts the altitude into the upper cell
		return res
	}
	if lower.Cmp(band) <= 0 {
		res.NearEdge, res.Alt = true, res.Index-1
	} else if upper.Cmp(band) <= 0 {
		res.NearEdge, res.Alt = true, res.Index+1
	}
	return res
}

// LatIndex computes floor(2^h * MercFrac(lat)) with a band (in units of the Mercator
// fraction) inside which either neighbouring row is acceptable. Rows are clamped to 0..2^h-1.
func LatIndex(lat float64, h int64, bandFrac float64) IndexResult {
	n := math.Ldexp(1, int(h))
	// cheap float64 decision first
	t := MercFrac64(lat)
	pos := t * n
	fl := math.Floor(pos)
	const coarse = 1e-12 // float64 evaluation is certainly better than this
	if (pos-fl) > coarse*n && (fl+1-pos) > coarse*n && fl >= 0 && fl < n {
		return IndexResult{Index: int64(fl)}
	}
	// high precision
	bt := MercFrac(lat)
	bp := bf().Mul(bt, bf().SetFloat64(n))
	fi, _ := bp.Int(nil) // truncation toward zero
	if bp.Sign() < 0 && !bp.IsInt() {
		fi.Sub(fi, big.NewInt(1))
	}
	idx := fi.Int64()
	lower := bf().Sub(bp, bf().SetInt(fi))
	upper := bf().Sub(bigOne, lower)
	band := bf().SetFloat64(bandFrac * n)
	res := IndexResult{Index: idx}
	maxIdx := int64(n) - 1
	if lower.Cmp(band) <= 0 {
		res.NearEdge, res.Alt = true, idx-1
	} else if upper.Cmp(band) <= 0 {
		res.NearEdge, res.Alt = true, idx+1
	}
	// The documented latitude limit 85.0511287798 lies strictly inside the grid, so the exact
	// index is always within 0..2^h-1; the alternative is clamped as well.
	if res.NearEdge && (res.Alt < 0 || res.Alt > maxIdx) {
		res.NearEdge = false
	}
	return res
}

// RowNorthLat returns the northern latitude (degrees) of row y at zoom h: gd(pi(1-2y/2^h)).
func RowNorthLat(y, h int64) float64 {
	n := math.Ldexp(1, int(h))
	psi := math.Pi * (1 - 2*float64(y)/n)
	// Gudermannian via 2*atan(exp(psi)) - pi/2, written as atan(sinh) alternative
	return (2*math.Atan(math.Exp(psi)) - math.Pi/2) * 180 / math.Pi
}

// ColWestLon returns the western longitude of column x at zoom h exactly rounded.
func ColWestLon(x, h int64) float64 {
	r := new(big.Rat).Mul(big.NewRat(360, 1), new(big.Rat).SetFrac(big.NewInt(x), new(big.Int).Lsh(big.NewInt(1), uint(h))))
	r.Sub(r, big.NewRat(180, 1))
	f, _ := r.Float64()
	return f
}
