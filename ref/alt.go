package ref

import (
	"math/big"
)

// Altitude scales.
//
// Spatial scale: cell (z, f) is [f, f+1) * 2^(25-z) metres, -2^z <= f < 2^z.
// Key scale (Zk, E, off): cell (Zk, k) is [k*2^(E-Zk) - off, (k+1)*2^(E-Zk) - off) metres,
// 0 <= k < 2^Zk (at zoom E a cell is 1 m tall and index `off` starts at 0 m).

func pow2Rat(e int64) *big.Rat {
	r := new(big.Rat)
	if e >= 0 {
		r.SetInt(new(big.Int).Lsh(big.NewInt(1), uint(e)))
	} else {
		r.SetFrac(big.NewInt(1), new(big.Int).Lsh(big.NewInt(1), uint(-e)))
	}
	return r
}

func ratFloor(r *big.Rat) *big.Int {
	q := new(big.Int)
	m := new(big.Int)
	q.DivMod(r.Num(), r.Denom(), m) // Euclidean: floor for positive denominator
	return q
}

func ratCeil(r *big.Rat) *big.Int {
	n := new(big.Rat).Neg(r)
	f := ratFloor(n)
	return f.Neg(f)
}

// Interval is a half-open altitude interval in metres.
type Interval struct{ Lo, Hi *big.Rat }

// SpatialCell returns the altitude interval of spatial cell (z, f).
func SpatialCell(z, f int64) Interval {
	res := pow2Rat(25 - z)
	lo := new(big.Rat).Mul(new(big.Rat).SetInt64(f), res)
	hi := new(big.Rat).Mul(new(big.Rat).SetInt64(f+1), res)
	return Interval{lo, hi}
}

// KeyCell returns the altitude interval of key cell (Zk, k) under (E, off).
func KeyCell(zk, k, e, off int64) Interval {
	res := pow2Rat(e - zk)
	o := new(big.Rat).SetInt64(off)
	lo := new(big.Rat).Mul(new(big.Rat).SetInt64(k), res)
	lo.Sub(lo, o)
	hi := new(big.Rat).Mul(new(big.Rat).SetInt64(k+1), res)
	hi.Sub(hi, o)
	return Interval{lo, hi}
}

// Widen moves the interval ends outward to whole metres.
func (iv Interval) Widen() Interval {
	return Interval{new(big.Rat).SetInt(ratFloor(iv.Lo)), new(big.Rat).SetInt(ratCeil(iv.Hi))}
}

// coverRange returns the inclusive index range of the cells [i*res + org, (i+1)*res + org)
// that intersect iv: floor((lo-org)/res) .. ceil((hi-org)/res) - 1.
func coverRange(iv Interval, res, org *big.Rat) (*big.Int, *big.Int) {
	a := new(big.Rat).Sub(iv.Lo, org)
	a.Quo(a, res)
	b := new(big.Rat).Sub(iv.Hi, org)
	b.Quo(b, res)
	lo := ratFloor(a)
	hi := ratCeil(b)
	hi.Sub(hi, big.NewInt(1))
	return lo, hi
}

// KeysCovering returns the inclusive key range (zoom zk, base e, off) intersecting iv.
func KeysCovering(iv Interval, zk, e, off int64) (*big.Int, *big.Int) {
	org := new(big.Rat).SetInt64(off)
	org.Neg(org)
	return coverRange(iv, pow2Rat(e-zk), org)
}

// SpatialCovering returns the inclusive f range at zoom z intersecting iv.
func SpatialCovering(iv Interval, z int64) (*big.Int, *big.Int) {
	return coverRange(iv, pow2Rat(25-z), new(big.Rat))
}

// SpatialIndexValid: -2^z <= f < 2^z.
func SpatialIndexValid(z int64, f *big.Int) bool {
	lim := new(big.Int).Lsh(big.NewInt(1), uint(z))
	neg := new(big.Int).Neg(lim)
	return f.Cmp(neg) >= 0 && f.Cmp(lim) < 0
}

// KeyIndexValid: 0 <= k < 2^zk.
func KeyIndexValid(zk int64, k *big.Int) bool {
	lim := new(big.Int).Lsh(big.NewInt(1), uint(zk))
	return k.Sign() >= 0 && k.Cmp(lim) < 0
}
