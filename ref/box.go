// Package ref is the reference model used as oracle by the checks.
//
// It is written from the mathematical meaning of the grid (dyadic boxes) and
// imports nothing from the repository under test.
package ref

import (
	"fmt"
	"math/big"
	"sort"
	"strconv"
	"strings"
)

// Box is one voxel: horizontal cell (H, X, Y) and vertical cell (V, F).
//
// Horizontal cell = [X, X+1) x [Y, Y+1) in units of 2^-H of the unit square,
// vertical cell   = [F, F+1) * 2^(25-V) metres.
type Box struct {
	H, X, Y, V, F int64
}

// Ext renders the extended notation h/x/y/v/f.
func (b Box) Ext() string {
	return strconv.FormatInt(b.H, 10) + "/" + strconv.FormatInt(b.X, 10) + "/" +
		strconv.FormatInt(b.Y, 10) + "/" + strconv.FormatInt(b.V, 10) + "/" +
		strconv.FormatInt(b.F, 10)
}

// Spatial renders the single-zoom notation z/f/x/y (caller guarantees H == V).
func (b Box) Spatial() string {
	return strconv.FormatInt(b.H, 10) + "/" + strconv.FormatInt(b.F, 10) + "/" +
		strconv.FormatInt(b.X, 10) + "/" + strconv.FormatInt(b.Y, 10)
}

// parseCanonInt parses a canonical decimal integer (what FormatInt prints).
func parseCanonInt(s string) (int64, bool) {
	if s == "" {
		return 0, false
	}
	v, err := strconv.ParseInt(s, 10, 64)
	if err != nil {
		return 0, false
	}
	if strconv.FormatInt(v, 10) != s {
		return 0, false
	}
	return v, true
}

// ParseExt parses a canonical extended ID.
func ParseExt(s string) (Box, error) {
	p := strings.Split(s, "/")
	if len(p) != 5 {
		return Box{}, fmt.Errorf("ext id %q: %d fields", s, len(p))
	}
	var v [5]int64
	for i := range p {
		n, ok := parseCanonInt(p[i])
		if !ok {
			return Box{}, fmt.Errorf("ext id %q: field %d not canonical integer", s, i)
		}
		v[i] = n
	}
	return Box{H: v[0], X: v[1], Y: v[2], V: v[3], F: v[4]}, nil
}

// ParseSpatial parses a canonical spatial ID z/f/x/y.
func ParseSpatial(s string) (Box, error) {
	p := strings.Split(s, "/")
	if len(p) != 4 {
		return Box{}, fmt.Errorf("spatial id %q: %d fields", s, len(p))
	}
	var v [4]int64
	for i := range p {
		n, ok := parseCanonInt(p[i])
		if !ok {
			return Box{}, fmt.Errorf("spatial id %q: field %d not canonical integer", s, i)
		}
		v[i] = n
	}
	return Box{H: v[0], X: v[2], Y: v[3], V: v[0], F: v[1]}, nil
}

// Valid reports whether the box lies in the documented index ranges.
func (b Box) Valid() bool {
	if b.H < 0 || b.H > 35 || b.V < 0 || b.V > 35 {
		return false
	}
	n := int64(1) << uint(b.H)
	m := int64(1) << uint(b.V)
	return b.X >= 0 && b.X < n && b.Y >= 0 && b.Y < n && b.F >= -m && b.F < m
}

// Ancestor returns floor(i / 2^d) (floor also for negative i).
func Ancestor(i int64, d int64) int64 {
	if d <= 0 {
		return i
	}
	if d >= 63 {
		if i < 0 {
			return -1
		}
		return 0
	}
	return i >> uint(d) // arithmetic shift = floor
}

// AxisRange returns the inclusive index range [lo, hi] at zoom `to` of the cells
// intersecting cell i of zoom `from` (one axis).
func AxisRange(from, i, to int64) (lo, hi int64) {
	if to >= from {
		d := uint(to - from)
		return i << d, ((i + 1) << d) - 1
	}
	a := Ancestor(i, from-to)
	return a, a
}

// ZoomCount returns how many boxes Zoom would produce (as big.Int to be safe).
func ZoomCount(b Box, H, V int64) *big.Int {
	n := big.NewInt(1)
	if H > b.H {
		n.Lsh(n, uint(2*(H-b.H)))
	}
	if V > b.V {
		n.Lsh(n, uint(V-b.V))
	}
	return n
}

// Zoom returns the boxes of grid (H, V) that intersect b.
func Zoom(b Box, H, V int64) []Box {
	xl, xh := AxisRange(b.H, b.X, H)
	yl, yh := AxisRange(b.H, b.Y, H)
	fl, fh := AxisRange(b.V, b.F, V)
	out := make([]Box, 0, (xh-xl+1)*(yh-yl+1)*(fh-fl+1))
	for x := xl; x <= xh; x++ {
		for y := yl; y <= yh; y++ {
			for f := fl; f <= fh; f++ {
				out = append(out, Box{H, x, y, V, f})
			}
		}
	}
	return out
}

// ZoomSet applies Zoom to every box and returns the de-duplicated set.
func ZoomSet(bs []Box, H, V int64) map[Box]struct{} {
	out := map[Box]struct{}{}
	for _, b := range bs {
		for _, z := range Zoom(b, H, V) {
			out[z] = struct{}{}
		}
	}
	return out
}

// axisOverlap: cells (za, a) and (zb, b) of one axis share interior iff one is
// ancestor-or-equal of the other.
func axisOverlap(za, a, zb, b int64) bool {
	if za <= zb {
		return Ancestor(b, zb-za) == a
	}
	return Ancestor(a, za-zb) == b
}

// Overlap reports whether two boxes share interior volume.
func Overlap(a, b Box) bool {
	return axisOverlap(a.H, a.X, b.H, b.X) && axisOverlap(a.H, a.Y, b.H, b.Y) &&
		axisOverlap(a.V, a.F, b.V, b.F)
}

// Contains reports whether a contains b entirely.
func Contains(a, b Box) bool {
	if a.H > b.H || a.V > b.V {
		return false
	}
	return Ancestor(b.X, b.H-a.H) == a.X && Ancestor(b.Y, b.H-a.H) == a.Y &&
		Ancestor(b.F, b.V-a.V) == a.F
}

// Region returns the set of unit cells at (H, V) covered by the boxes; every
// box must be at zooms <= (H, V). The caller bounds the size.
func Region(bs []Box, H, V int64) map[Box]struct{} {
	return ZoomSet(bs, H, V)
}

// MaxZooms returns the finest zooms in the list.
func MaxZooms(bs []Box) (H, V int64) {
	for _, b := range bs {
		if b.H > H {
			H = b.H
		}
		if b.V > V {
			V = b.V
		}
	}
	return
}

// RegionCellCount returns the number of unit cells Region would enumerate, per box summed.
func RegionCellCount(bs []Box, H, V int64) *big.Int {
	t := new(big.Int)
	for _, b := range bs {
		t.Add(t, ZoomCount(b, H, V))
	}
	return t
}

// SameRegion compares the unions of two box lists exactly.
func SameRegion(a, b []Box) bool {
	H1, V1 := MaxZooms(a)
	H2, V2 := MaxZooms(b)
	H, V := max64(H1, H2), max64(V1, V2)
	ra, rb := Region(a, H, V), Region(b, H, V)
	if len(ra) != len(rb) {
		return false
	}
	for k := range ra {
		if _, ok := rb[k]; !ok {
			return false
		}
	}
	return true
}

func max64(a, b int64) int64 {
	if a > b {
		return a
	}
	return b
}

// Mod returns the mathematical a mod 2^h in [0, 2^h).
func Mod(a int64, h int64) int64 {
	n := int64(1) << uint(h)
	r := a % n
	if r < 0 {
		r += n
	}
	return r
}

// Shift translates a box modularly in x, y and freely in f.
func Shift(b Box, dx, dy, dv int64) Box {
	return Box{b.H, Mod(b.X+dx, b.H), Mod(b.Y+dy, b.H), b.V, b.F + dv}
}

// Merge is the reference for the merge operation.
//
// eligible = H>=tH && V>=tV; eligible boxes are grouped by their floor ancestor
// at (tH, tV); a group whose members fill the ancestor is replaced by it, any
// other group's members and all ineligible boxes are returned unchanged.
func Merge(bs []Box, tH, tV int64) map[Box]struct{} {
	out := map[Box]struct{}{}
	groups := map[Box][]Box{}
	for _, b := range bs {
		if b.H >= tH && b.V >= tV {
			a := Box{tH, Ancestor(b.X, b.H-tH), Ancestor(b.Y, b.H-tH), tV, Ancestor(b.F, b.V-tV)}
			groups[a] = append(groups[a], b)
		} else {
			out[b] = struct{}{}
		}
	}
	for a, ms := range groups {
		H, V := MaxZooms(ms)
		cells := Region(ms, H, V)
		want := ZoomCount(a, H, V)
		if want.IsInt64() && int64(len(cells)) == want.Int64() {
			out[a] = struct{}{}
		} else {
			for _, m := range ms {
				out[m] = struct{}{}
			}
		}
	}
	return out
}

// SortedExt renders a set as sorted extended IDs (for messages).
func SortedExt(s map[Box]struct{}) []string {
	out := make([]string, 0, len(s))
	for b := range s {
		out = append(out, b.Ext())
	}
	sort.Strings(out)
	return out
}

// Quadkey interleaves the bits of y and x (y is the high bit of each base-4 digit).
func Quadkey(h, x, y int64) int64 {
	var k int64
	for i := int64(0); i < h; i++ {
		k |= ((x >> uint(i)) & 1) << uint(2*i)
		k |= ((y >> uint(i)) & 1) << uint(2*i+1)
	}
	return k
}

// UnQuadkey de-interleaves a quadkey of zoom h.
func UnQuadkey(h, k int64) (x, y int64) {
	for i := int64(0); i < h; i++ {
		x |= ((k >> uint(2*i)) & 1) << uint(i)
		y |= ((k >> uint(2*i+1)) & 1) << uint(i)
	}
	return
}
