#!/bin/bash
# Repeated runs of every check on the unchanged tree: tools/soak.sh <tier> <seed>...   (log: soak-<tier>.log in the cwd)
tier=$1; shift
cd "$(dirname "$0")/.."
for seed in "$@"; do
  for p in C01 C02 C03 C04 C05 C06 C07 C08 C09 C10 C11 C12 C13 C14 C15 C16 C17 C18 C19 C20; do
    out=$(VERIF_SEED=$seed ./check $p --tier $tier --no-evidence 2>&1); rc=$?
    echo "seed=$seed $p exit=$rc $(echo "$out" | tail -1)"
    echo "$out" | grep -E '^VIOLATION|INCONCLUSIVE' | head -3
  done
done
