#!/usr/bin/env python3
"""Regenerates /verif/MANIFEST.json from the table below (kept in one place so that the manifest is
always valid and consistent with what ./check implements)."""
import json, os, sys

HERE = os.path.dirname(os.path.dirname(os.path.abspath(__file__)))

# id -> (design_ref, technique, level text, level note)
CHECKS = {
 "C01": ("DESIGN.md 5/C01",
         "property-based testing (rapid) + deterministic edge sweep; oracle: exact big-rational floor for x and f, 256-bit Mercator reference with stated band for y, inverse-map containment",
         "Generated search: every returned ID is compared with an independent exact reference on tens of thousands of points per run (domain edges, exact tile/row/cell boundaries +-1 ulp, all 36x36 zoom pairs swept). Finds any wrong rounding mode, off-by-one, swapped field or lost ordering; does not prove absence.",
         "Trusted: ref/ (math/big; own unit tests run by setup_cmd), Go's strconv. Points closer than the stated float bands to a cell edge accept either neighbour."),

 "C02": ("DESIGN.md 5/C02",
         "property-based testing (rapid) + zoom-pair sweep; oracle: closed-form voxel geometry (exact rational longitudes, Gudermannian latitudes with the documented 1e-10 cut, exact altitudes), round trip centre->ID, bit-exact shared faces",
         "Generated search over valid IDs in both notations: all eight vertices and the centre are compared with an independent closed form, the centre is converted back to an ID (string equality) and the faces shared with the three positive neighbours are compared bit for bit; all 36x36 zoom pairs are swept at the grid edges.",
         "Trusted: ref/ closed forms (float64 + math/big), the latitude band of 1e-10 (documented truncation) + 2e-13."),
 "C03": ("DESIGN.md 5/C03",
         "property-based testing (rapid) + exhaustive small-scope sweep; oracle: dyadic-box reference model (floor ancestors / child ranges), exact set equality",
         "Generated relational ID lists (mixed zooms, negative indices) x all target zoom pairs; output compared as a set with the reference, duplicates and zoom fields checked, the three exported per-axis helpers compared per input. Exhaustive over every box at zooms <= 2 and targets <= 5.",
         "Trusted: ref/ integer model. Zoom-in bounded to <= 4096 outputs (documented unbounded memory)."),
 "C04": ("DESIGN.md 5/C04",
         "property-based testing (rapid) + exhaustive subset sweep; oracles: reference merge (expected set), independent region equality by unit cells, idempotence (metamorphic)",
         "Generated ID lists built around target voxels (complete / one-missing / overlapping tilings, ground level, ineligible and duplicate entries); three independent oracles per case. Exhaustive over all subsets of the children of a voxel above and below ground.",
         "Trusted: ref/ integer model. Zoom spread bounded to 2/3 levels (documented memory bound)."),
 "C05": ("DESIGN.md 5/C05",
         "property-based testing (rapid) + exhaustive small-scope sweep; oracle: ancestor-or-equal relation per axis; metamorphic: symmetry, reflexivity, array = disjunction of pairs; differential: radix-tree vs zoom-change implementation",
         "Generated pairs and lists related axis by axis (near misses on one axis, negative indices, sub-metre zooms, empty lists) for both APIs; answer compared with the reference, with the swapped call, with the pairwise form and with the other implementation.",
         "Trusted: ref/ integer model. Single-zoom form restricted to its documented altitude range."),
 "C12": ("DESIGN.md 5/C12",
         "property-based testing (rapid) + exhaustive tuple sweep; oracle: exact rational interval arithmetic (covering range and metre-widened covering range), error-iff rule, duality between the two directions",
         "Generated (index, zooms, base exponent, offset) tuples constructed to land in range (offsets unaligned, odd, negative, sub-metre zooms, top/bottom indices) in both directions; result must lie between the exact and the metre-widened covering range, errors exactly where the property demands; exhaustive over a small tuple space.",
         "Trusted: ref/ big.Rat arithmetic. Tuples whose intermediates overflow int64 are excluded by construction."),

 "C06": ("DESIGN.md 5/C06",
         "property-based testing (rapid) + zoom/direction sweep; oracle: validity predicate (duplicate-free, end voxels present, slab intersection test of every voxel against the segment, breadth-first 26-connectivity, no detached voxel), spatial form = same set",
         "Generated segments sized in local voxel units (axis-parallel, diagonal, exactly through voxel corners, across ground level, at the latitude limit and lon = +-180, at the zooms where the termination thresholds switch); the result is judged by a geometric validity predicate built on the independent reference, not by one expected answer.",
         "Trusted: ref/ voxel bounds; voxel bounds inflated by the stated float / 1e-10 truncation bands. Segments bounded to a few hundred voxels."),
 "C07": ("DESIGN.md 5/C07",
         "property-based testing (rapid) + exhaustive small-grid sweep; oracle: integer modular arithmetic; algebraic laws (identity, composition, inverse)",
         "Generated IDs at all zooms with shifts up to four world widths and vertical shifts up to +-2^61; result compared as a string with modular arithmetic and with the composition / inverse laws; exhaustive over every box and shift at h <= 3.",
         "Trusted: ref/ integer model."),
 "C08": ("DESIGN.md 5/C08",
         "property-based testing (rapid) + exhaustive small-grid sweep; oracle: set/multiset comprehension over the stencil of the modular-shift reference; counts, self-exclusion, symmetry",
         "Generated voxels on grid edges and tiny grids, lists with overlapping neighbourhoods, layer counts 0..4; all four neighbourhood functions compared with the comprehension over the reference shift.",
         "Trusted: ref/ integer model."),
 "C09": ("DESIGN.md 5/C09",
         "property-based testing (rapid) + zoom-pair sweep; oracle: metamorphic relations between library calls only (point lookup vs zoom-out, zoom-in/out round trip, merge of all descendants, overlap of nested IDs)",
         "Generated points (both altitude signs, cell edges) x ordered zoom pairs per axis and boxes x zoom-in differences; the relations are exact, so any one-sided rounding difference between the four operations is reported.",
         "No external reference. Sub-normal altitudes excluded by construction (C01 band)."),
 "C10": ("DESIGN.md 5/C10",
         "property-based testing (rapid) + exhaustive small-scope sweep; oracle: independent ID rendering/parsing, round trip, dyadic-box reference for the expansion",
         "Generated ID lists with pairwise distinct components and negative indices: notation round trip element-wise, object parse/print/field order, voxel-id extraction, expansion compared as an exact set with the reference (count, duplicates, region).",
         "Trusted: ref/ parser and integer model. Expansion bounded to |h-v| <= 5."),
 "C11": ("DESIGN.md 5/C11",
         "property-based testing (rapid) + exhaustive sweep of all tiles/keys at h <= 5; oracle: bit interleaving reference, round trip, zoom reference, no pair twice, echoed request fields",
         "Generated ID lists (leading-zero quadkeys, repeated and nested IDs) x output zooms x back-conversion zooms x raw keys; pairs compared as exact sets with the reference, both directions of the key bijection, the altitude-key variant against the C12 reference in its exact regime.",
         "Trusted: ref/ integer model. Output bounded to 2048 pairs."),
 "C13": ("DESIGN.md 5/C13",
         "property-based testing (rapid) + example-neighbourhood sweep; oracle: per-tile exact / metre-widened covering range (big.Rat), differential against the library's range function, all-or-nothing on range errors, reference expansion for the spatial variant",
         "Generated tile lists (overlapping vertical ranges, nested vertical cells, other footprints / zooms, invalid z) with constructively in-range offsets; result bracketed by the reference ranges and equal to the union of the library's own per-tile range.",
         "Trusted: ref/ big.Rat arithmetic. Bounded to 512 indices per tile."),
 "C14": ("DESIGN.md 5/C14",
         "property-based testing (rapid); oracle: relations to the line query, the clearance fit (maximum over all line voxels) and the N-layer neighbourhood on the same arguments; measured subset of skipped; independent WGS84 footprint-to-chord distance (rigorous lower bound)",
         "Generated corridors (all zooms where the layer fit terminates, radii 0..2.5 voxel widths, both skip flags): every clause of the property is checked per case; a kept voxel farther than the radius is split by root cause (dependency GJK = known finding F13, otherwise violation).",
         "Trusted: own geodetic->ECEF formulas, ref/ voxel bounds. Radius capped to a quarter of the largest distance on the row (termination of the layer fit)."),
 "C15": ("DESIGN.md 5/C15",
         "property-based testing (rapid) + table sweep (+ native go fuzzing of raw strings in the thorough tier); oracle: outcome classification per call (panic / missing error / result together with error)",
         "Generated invalid arguments for 40 entry points: structurally mutated ID strings at every list position, int64 zoom arguments (near bounds first, then extremes), coordinates beyond the limits and +-Inf, nil points, unknown options, negative radii / layers, max<min heights; recovered panics of the library are violations.",
         "Soundness notes (weaker readings) are listed in the evidence assumptions."),
 "C16": ("DESIGN.md 5/C16",
         "property-based testing (rapid), metamorphic: repeated calls, permuted input, duplicated input, de-duplication, input preservation",
         "Argument lists from the generators of C03/C04/C05/C06/C08/C11/C13/C14 plus a permutation and duplication pattern; four identical calls must agree (Go re-randomises map order per range, so in-process repetition samples schedules), permuted / duplicated inputs must give the same set, inputs are compared with a deep copy.",
         "Map iteration orders are sampled by the runtime, not enumerated (DESIGN.md 7)."),
 "C17": ("DESIGN.md 5/C17",
         "property-based testing (rapid) + dyadic sweep; oracle: exact rational binary-subdivision index with a stated band at cell borders, contiguity, clamping, error iff max<min",
         "Generated voxels x subdivision zooms x height ranges (dyadic / non-dyadic, voxel inside / straddling / outside) in both directions through the public conversion functions; the returned run must be contiguous, inside 0..2^Z-1 and end at the reference cells.",
         "Trusted: big.Rat subdivision. Run length bounded to ~4096 by construction from the reference."),
 "C18": ("DESIGN.md 5/C18",
         "property-based testing (rapid) + exhaustive sweep of the bundled EPSG table; oracle: closed-form spherical Mercator, round trip within 2e-10 deg, bit-identical altitude, unknown code = conversion error",
         "Generated point lists x EPSG codes (3857 for the numeric claims, every code of the bundled table and unknown codes for the structural ones). Known finding F8 (degradation with |altitude| > 1e4 m) is excluded by its matcher and counted.",
         "Trusted: closed forms; the table of supported codes is enumerated in the check."),
 "C19": ("DESIGN.md 5/C19",
         "property-based testing (rapid) of generated concurrent workloads under the Go race detector; oracle: no race report, concurrent result = sequential result, shared arguments unchanged",
         "Generated workloads of 8..40 calls from a table of 34 closures over shared slices / objects on 2..16 goroutines, 3 rounds with a start barrier, in a -race build; the race log is polled after every workload so that a report is attributed to the shrunk workload.",
         "Schedules are sampled by real parallel execution, not enumerated (DESIGN.md 7)."),
 "C20": ("DESIGN.md 5/C20",
         "property-based testing (rapid) + exhaustive small sweeps; oracle: map/set model, big-integer floor shift, binomial count and lexicographic order, direct formulas with stated float tolerances",
         "Generated slices with frequent collisions, (index, shift) pairs without overflow, all 0<=k<=n<=12, vectors incl. parallel / opposite / nearly opposite pairs, matrices; every helper compared with its mathematical definition.",
         "Float identities use relative tolerances derived from the conditioning of the formulas (see evidence assumptions)."),
}

NOT_YET = {
}

def main():
    props = [json.loads(l) for l in open(os.path.join(HERE, "properties.jsonl"))]
    checks = []
    na = []
    for p in props:
        pid = p["id"]
        if pid in CHECKS:
            d, tech, text, note = CHECKS[pid]
            if pid not in ("C14", "C19"):
                tech += "; thorough tier adds a coverage-guided native fuzzing run (go test -fuzz, rapid.MakeFuzz) of the same generator and oracle"
            checks.append({
                "property_id": pid,
                "quick_cmd": "./check %s --tier quick" % pid,
                "thorough_cmd": "./check %s --tier thorough" % pid,
                "evidence_file": "/verif/evidence/%s.json" % pid,
                "replay_cmd_template": "./check %s --replay {path}" % pid,
                "engine": "rapid-harness",
                "level_claimed": {"category": "exploration", "text": text, "design_ref": d},
                "level_note": note,
                "technique": tech,
            })
        else:
            na.append({"property_id": pid, "reason": NOT_YET.get(pid, "check not built yet in this revision of /verif (work in progress; will be claimed once its generated check exists)")})
    m = {
        "version": 1,
        "setup_cmd": "./setup.sh",
        "hooks": {
            "guard": "verif",
            "enable": "no hooks are needed: every property is observable at the public API; checks build /repo as is (go test -c with a replace directive to /repo)",
            "baseline_off_cmd": "cd /repo && go test -mod=mod -json -vet=off -count=1 -timeout 25m ./...",
            "source_commits": [],
            "add_only": True,
        },
        "engines": [
            {"name": "rapid-harness", "path": "/verif/checks", "serves_properties": [c["property_id"] for c in checks],
             "kind_free_text": "Go test binary (pgregory.net/rapid v1.3.0) driven by /verif/check: per property genCase/checkCase/classify, deterministic sweeps, JSON replay files, known-finding matchers"},
            {"name": "reference-model", "path": "/verif/ref", "serves_properties": [c["property_id"] for c in checks],
             "kind_free_text": "independent dyadic-box / altitude / Mercator reference in math/big, imports nothing from /repo"},
        ],
        "checks": checks,
        "not_applicable": na,
        "notes": "All checks: exit 0 held / exit 1 + VIOLATION line / exit 2 inconclusive (build failure, time-out, OOM). VERIF_SEED selects the rapid seeds. known_findings.json lists genuine defects (fixed ones are replayed as regression cases).",
    }
    if not na:
        m["not_applicable"] = []
    json.dump(m, open(os.path.join(HERE, "MANIFEST.json"), "w"), indent=1)
    print("MANIFEST.json: %d checks, %d not claimed" % (len(checks), len(na)))

if __name__ == "__main__":
    main()
