#!/usr/bin/env python3
"""Regenerates /verif/MANIFEST.json from the table below (kept in one place so that the manifest is
always valid and consistent with what ./check implements)."""
import json, os, sys

HERE = os.path.dirname(os.path.dirname(os.path.abspath(__file__)))

# id -> (design_ref, technique, level text, level note)
CHECKS = {
 "C01": ("DESIGN.md 5/C01",
         "property-based testing (rapid) + deterministic edge sweep; oracle: exact big-rational floor for x and f, 256-bit Mercator reference with stated band for y, inverse-map containment",
         "Generated search: every returned ID is compared with an independent exact reference on tens of thousands of points per run (domain edges, exact tile/row/cell boundaries +-1 ulp, all 36x36 zoom pairs swept). Finds any wrong rounding mode, off-by-one, swapped field or lost ordering; does not prove absence.",
         "Trusted: ref/ (math/big; own unit tests run by setup_cmd), Go's strconv. Points closer than the stated float bands to a cell edge accept either neighbour."),
}

NOT_YET = {
}

def main():
    props = [json.loads(l) for l in open(os.path.join(HERE, "properties.jsonl"))]
    checks = []
    na = []
    for p in props:
        pid = p["id"]
        if pid in CHECKS:
            d, tech, text, note = CHECKS[pid]
            checks.append({
                "property_id": pid,
                "quick_cmd": "./check %s --tier quick" % pid,
                "thorough_cmd": "./check %s --tier thorough" % pid,
                "evidence_file": "/verif/evidence/%s.json" % pid,
                "replay_cmd_template": "./check %s --replay {path}" % pid,
                "engine": "rapid-harness",
                "level_claimed": {"category": "exploration", "text": text, "design_ref": d},
                "level_note": note,
                "technique": tech,
            })
        else:
            na.append({"property_id": pid, "reason": NOT_YET.get(pid, "check not built yet in this revision of /verif (work in progress; will be claimed once its generated check exists)")})
    m = {
        "version": 1,
        "setup_cmd": "./setup.sh",
        "hooks": {
            "guard": "verif",
            "enable": "no hooks are needed: every property is observable at the public API; checks build /repo as is (go test -c with a replace directive to /repo)",
            "baseline_off_cmd": "cd /repo && go test -mod=mod -json -vet=off -count=1 -timeout 25m ./...",
            "source_commits": [],
            "add_only": True,
        },
        "engines": [
            {"name": "rapid-harness", "path": "/verif/checks", "serves_properties": [c["property_id"] for c in checks],
             "kind_free_text": "Go test binary (pgregory.net/rapid v1.3.0) driven by /verif/check: per property genCase/checkCase/classify, deterministic sweeps, JSON replay files, known-finding matchers"},
            {"name": "reference-model", "path": "/verif/ref", "serves_properties": [c["property_id"] for c in checks],
             "kind_free_text": "independent dyadic-box / altitude / Mercator reference in math/big, imports nothing from /repo"},
        ],
        "checks": checks,
        "not_applicable": na,
        "notes": "All checks: exit 0 held / exit 1 + VIOLATION line / exit 2 inconclusive (build failure, time-out, OOM). VERIF_SEED selects the rapid seeds. known_findings.json lists genuine defects (fixed ones are replayed as regression cases).",
    }
    if not na:
        m["not_applicable"] = []
    json.dump(m, open(os.path.join(HERE, "MANIFEST.json"), "w"), indent=1)
    print("MANIFEST.json: %d checks, %d not claimed" % (len(checks), len(na)))

if __name__ == "__main__":
    main()
