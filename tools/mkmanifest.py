#!/usr/bin/env python3
"""Regenerates /verif/MANIFEST.json from the table below (kept in one place so that the manifest is
always valid and consistent with what ./check implements)."""
import json, os, sys

HERE = os.path.dirname(os.path.dirname(os.path.abspath(__file__)))

# id -> (design_ref, technique, level text, level note)
CHECKS = {
 "C01": ("DESIGN.md 5/C01",
         "property-based testing (rapid) + deterministic edge sweep; oracle: exact big-rational floor for x and f, 256-bit Mercator reference with stated band for y, inverse-map containment",
         "Generated search: every returned ID is compared with an independent exact reference on tens of thousands of points per run (domain edges, exact tile/row/cell boundaries +-1 ulp, all 36x36 zoom pairs swept). Finds any wrong rounding mode, off-by-one, swapped field or lost ordering; does not prove absence.",
         "Trusted: ref/ (math/big; own unit tests run by setup_cmd), Go's strconv. Points closer than the stated float bands to a cell edge accept either neighbour."),

 "C02": ("DESIGN.md 5/C02",
         "property-based testing (rapid) + zoom-pair sweep; oracle: closed-form voxel geometry (exact rational longitudes, Gudermannian latitudes with the documented 1e-10 cut, exact altitudes), round trip centre->ID, bit-exact shared faces",
         "Generated search over valid IDs in both notations: all eight vertices and the centre are compared with an independent closed form, the centre is converted back to an ID (string equality) and the faces shared with the three positive neighbours are compared bit for bit; all 36x36 zoom pairs are swept at the grid edges.",
         "Trusted: ref/ closed forms (float64 + math/big), the latitude band of 1e-10 (documented truncation) + 2e-13."),
 "C03": ("DESIGN.md 5/C03",
         "property-based testing (rapid) + exhaustive small-scope sweep; oracle: dyadic-box reference model (floor ancestors / child ranges), exact set equality",
         "Generated relational ID lists (mixed zooms, negative indices) x all target zoom pairs; output compared as a set with the reference, duplicates and zoom fields checked, the three exported per-axis helpers compared per input. Exhaustive over every box at zooms <= 2 and targets <= 5.",
         "Trusted: ref/ integer model. Zoom-in bounded to <= 4096 outputs (documented unbounded memory)."),
 "C04": ("DESIGN.md 5/C04",
         "property-based testing (rapid) + exhaustive subset sweep; oracles: reference merge (expected set), independent region equality by unit cells, idempotence (metamorphic)",
         "Generated ID lists built around target voxels (complete / one-missing / overlapping tilings, ground level, ineligible and duplicate entries); three independent oracles per case. Exhaustive over all subsets of the children of a voxel above and below ground.",
         "Trusted: ref/ integer model. Zoom spread bounded to 2/3 levels (documented memory bound)."),
 "C05": ("DESIGN.md 5/C05",
         "property-based testing (rapid) + exhaustive small-scope sweep; oracle: ancestor-or-equal relation per axis; metamorphic: symmetry, reflexivity, array = disjunction of pairs; differential: radix-tree vs zoom-change implementation",
         "Generated pairs and lists related axis by axis (near misses on one axis, negative indices, sub-metre zooms, empty lists) for both APIs; answer compared with the reference, with the swapped call, with the pairwise form and with the other implementation.",
         "Trusted: ref/ integer model. Single-zoom form restricted to its documented altitude range."),
 "C12": ("DESIGN.md 5/C12",
         "property-based testing (rapid) + exhaustive tuple sweep; oracle: exact rational interval arithmetic (covering range and metre-widened covering range), error-iff rule, duality between the two directions",
         "Generated (index, zooms, base exponent, offset) tuples constructed to land in range (offsets unaligned, odd, negative, sub-metre zooms, top/bottom indices) in both directions; result must lie between the exact and the metre-widened covering range, errors exactly where the property demands; exhaustive over a small tuple space.",
         "Trusted: ref/ big.Rat arithmetic. Tuples whose intermediates overflow int64 are excluded by construction."),
}

NOT_YET = {
}

def main():
    props = [json.loads(l) for l in open(os.path.join(HERE, "properties.jsonl"))]
    checks = []
    na = []
    for p in props:
        pid = p["id"]
        if pid in CHECKS:
            d, tech, text, note = CHECKS[pid]
            checks.append({
                "property_id": pid,
                "quick_cmd": "./check %s --tier quick" % pid,
                "thorough_cmd": "./check %s --tier thorough" % pid,
                "evidence_file": "/verif/evidence/%s.json" % pid,
                "replay_cmd_template": "./check %s --replay {path}" % pid,
                "engine": "rapid-harness",
                "level_claimed": {"category": "exploration", "text": text, "design_ref": d},
                "level_note": note,
                "technique": tech,
            })
        else:
            na.append({"property_id": pid, "reason": NOT_YET.get(pid, "check not built yet in this revision of /verif (work in progress; will be claimed once its generated check exists)")})
    m = {
        "version": 1,
        "setup_cmd": "./setup.sh",
        "hooks": {
            "guard": "verif",
            "enable": "no hooks are needed: every property is observable at the public API; checks build /repo as is (go test -c with a replace directive to /repo)",
            "baseline_off_cmd": "cd /repo && go test -mod=mod -json -vet=off -count=1 -timeout 25m ./...",
            "source_commits": [],
            "add_only": True,
        },
        "engines": [
            {"name": "rapid-harness", "path": "/verif/checks", "serves_properties": [c["property_id"] for c in checks],
             "kind_free_text": "Go test binary (pgregory.net/rapid v1.3.0) driven by /verif/check: per property genCase/checkCase/classify, deterministic sweeps, JSON replay files, known-finding matchers"},
            {"name": "reference-model", "path": "/verif/ref", "serves_properties": [c["property_id"] for c in checks],
             "kind_free_text": "independent dyadic-box / altitude / Mercator reference in math/big, imports nothing from /repo"},
        ],
        "checks": checks,
        "not_applicable": na,
        "notes": "All checks: exit 0 held / exit 1 + VIOLATION line / exit 2 inconclusive (build failure, time-out, OOM). VERIF_SEED selects the rapid seeds. known_findings.json lists genuine defects (fixed ones are replayed as regression cases).",
    }
    if not na:
        m["not_applicable"] = []
    json.dump(m, open(os.path.join(HERE, "MANIFEST.json"), "w"), indent=1)
    print("MANIFEST.json: %d checks, %d not claimed" % (len(checks), len(na)))

if __name__ == "__main__":
    main()
