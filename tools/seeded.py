#!/usr/bin/env python3
"""Confirms a seeded change delivered by a sub-agent and records it under /verif/seeded/<name>/.

  tools/seeded.py <name> <agent-worktree | -> <property> [more properties to try ...] [--tier quick|thorough]
  ("-" instead of a worktree re-checks the change already recorded under seeded/<name>)

Steps (all in a fresh scratch worktree of /repo HEAD outside /repo and /verif, removed afterwards):
  1. patch applies, `go build ./...` and the full existing test suite pass with it;
  2. the demonstration fails with the patch and passes without it;
  3. the listed checks are run against the patched tree (VERIF_REPO=<scratch worktree>).
Writes seeded/<name>/{patch.diff, demo/, NOTES.md, meta.json}.
"""
import os, sys, subprocess, shutil, json, time

VERIF = os.path.dirname(os.path.dirname(os.path.abspath(__file__)))


def env():
    e = dict(os.environ)
    e.update({"GOFLAGS": "-mod=mod", "GOPROXY": "off", "GOSUMDB": "off", "GOTOOLCHAIN": "local"})
    return e


def sh(cmd, cwd, extra=None, timeout=3600):
    e = env()
    if extra:
        e.update(extra)
    p = subprocess.run(cmd, cwd=cwd, env=e, shell=isinstance(cmd, str), stdout=subprocess.PIPE, stderr=subprocess.STDOUT, text=True, timeout=timeout)
    return p.returncode, p.stdout


def main():
    args = [a for a in sys.argv[1:] if not a.startswith("--")]
    tier = "quick"
    if "--tier" in sys.argv:
        tier = sys.argv[sys.argv.index("--tier") + 1]
        args = [a for a in args if a != tier]
    name, wt, props = args[0], args[1], args[2:]
    dst = os.path.join(VERIF, "seeded", name)
    if wt != "-":  # "-" = re-check what is already recorded under seeded/<name>
        src = os.path.join(wt, "SEEDED")
        os.makedirs(dst, exist_ok=True)
        for f in ("patch.diff", "NOTES.md"):
            if os.path.exists(os.path.join(src, f)):
                shutil.copy(os.path.join(src, f), os.path.join(dst, f))
        if os.path.isdir(os.path.join(src, "demo")):
            shutil.rmtree(os.path.join(dst, "demo"), ignore_errors=True)
            shutil.copytree(os.path.join(src, "demo"), os.path.join(dst, "demo"))
    scratch = "/tmp/sv-%s-%d" % (name, os.getpid())
    meta = {"name": name, "breaks_property": props[0], "checked_properties": props, "ran": []}
    try:
        rc, out = sh(["git", "-C", "/repo", "worktree", "add", "-q", "--detach", scratch, "HEAD"], "/")
        assert rc == 0, out
        head = sh(["git", "-C", "/repo", "rev-parse", "--short", "HEAD"], "/")[1].strip()
        meta["repo_head"] = head
        shutil.copytree(os.path.join(dst, "demo"), os.path.join(scratch, "SEEDED", "demo"))
        # demo without the patch
        rc0, out0 = sh("go test -count=1 ./...", os.path.join(scratch, "SEEDED", "demo"))
        meta["demo_without_patch"] = "pass" if rc0 == 0 else "FAIL"
        rc, out = sh(["git", "apply", os.path.join(dst, "patch.diff")], scratch)
        meta["patch_applies"] = rc == 0
        if rc != 0:
            meta["error"] = out[-500:]
            return
        rc, out = sh("go build ./...", scratch)
        meta["compiles"] = rc == 0
        rc, out = sh("go test -vet=off -count=1 ./...", scratch)
        meta["existing_tests_with_patch"] = "pass" if rc == 0 else "FAIL"
        if rc != 0:
            meta["existing_tests_output"] = out[-800:]
        rc1, out1 = sh("go test -count=1 ./...", os.path.join(scratch, "SEEDED", "demo"))
        meta["demo_with_patch"] = "fail" if rc1 != 0 else "PASSES(!)"
        meta["ran"] += ["git worktree add <scratch> HEAD; demo: go test ./... (without patch)", "git apply patch.diff; go build ./...; go test -vet=off -count=1 ./...", "demo: go test ./... (with patch)"]
        meta["checks"] = {}
        for p in props:
            t0 = time.time()
            rc, out = sh([os.path.join(VERIF, "check"), p, "--tier", tier, "--no-evidence"], VERIF,
                         {"VERIF_REPO": scratch, "VERIF_REPLAYS": os.path.join(scratch, ".replays")}, timeout=7200)
            viol = [l for l in out.splitlines() if l.startswith("VIOLATION")]
            first = [l.strip() for l in out.splitlines() if l.startswith("  failing case")]
            meta["checks"]["%s/%s" % (p, tier)] = {"exit": rc, "caught": rc == 1 and len(viol) > 0, "first_failure": (first[0][:400] if first else ""), "wall_s": round(time.time() - t0, 1)}
            meta["ran"].append("VERIF_REPO=<scratch> ./check %s --tier %s" % (p, tier))
    finally:
        shutil.rmtree(os.path.join(scratch, ".replays"), ignore_errors=True)
        sh(["git", "-C", "/repo", "worktree", "remove", "--force", scratch], "/")
        shutil.rmtree(scratch, ignore_errors=True)
        old = {}
        mp = os.path.join(dst, "meta.json")
        if os.path.exists(mp):
            try:
                old = json.load(open(mp))
            except Exception:
                old = {}
        if "checks" in old and "checks" in meta:
            merged = dict(old["checks"])
            merged.update(meta["checks"])
            meta["checks"] = merged
        for k in ("needs_to_manifest", "summary", "origin"):
            if k in old:
                meta[k] = old[k]
        json.dump(meta, open(mp, "w"), indent=1)
        print(json.dumps(meta, indent=1))


if __name__ == "__main__":
    main()
