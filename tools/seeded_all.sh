#!/bin/bash
# Re-checks every recorded seeded change against the current checks (quick tier; thorough for the ones that need it)
# and prints one line per change. usage: tools/seeded_all.sh [quick|thorough]
cd "$(dirname "$0")/.."
tier=${1:-quick}
for d in seeded/*/; do
  n=$(basename $d)
  props=$(python3 -c "
import json; m=json.load(open('$d/meta.json')); print(' '.join(sorted({k.split('/')[0] for k in m.get('checks',{})})))")
  python3 tools/seeded.py $n - $props --tier $tier > /dev/null 2>&1
  python3 -c "
import json; m=json.load(open('$d/meta.json'))
print('$n', m.get('existing_tests_with_patch'), m.get('demo_with_patch'), m.get('demo_without_patch'), {k:v['caught'] for k,v in sorted(m['checks'].items()) if k.endswith('/$tier')})"
done
