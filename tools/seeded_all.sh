#!/bin/bash
# Re-checks every recorded seeded change against the current checks and prints one line per change.
# usage: tools/seeded_all.sh [quick|thorough] [parallel jobs, default 3]
cd "$(dirname "$0")/.."
tier=${1:-quick}
jobs=${2:-3}
one() {
  d=$1; tier=$2
  n=$(basename $d)
  props=$(python3 -c "
import json; m=json.load(open('$d/meta.json')); print(' '.join(sorted({k.split('/')[0] for k in m.get('checks',{})})))")
  python3 tools/seeded.py $n - $props --tier $tier > /dev/null 2>&1
  python3 -c "
import json; m=json.load(open('$d/meta.json'))
print('$n', m.get('existing_tests_with_patch'), m.get('demo_with_patch'), m.get('demo_without_patch'), {k:v['caught'] for k,v in sorted(m['checks'].items()) if k.endswith('/$tier')})"
}
export -f one
ls -d seeded/*/ | xargs -P $jobs -I{} bash -c "one {} $tier"
