#!/bin/bash
# Runs the repository's own (unedited) test suite, guard off, and prints pass/fail counts.
# usage: tools/baseline.sh [repo-dir]
REPO=${1:-/repo}
export GOFLAGS=-mod=mod GOPROXY=off GOSUMDB=off GOTOOLCHAIN=local
cd "$REPO" || exit 2
out=$(go test -mod=mod -json -vet=off -count=1 -timeout 25m ./... 2>&1)
pass=$(echo "$out" | grep -c '"Action":"pass","Package":"[^"]*","Test":"[^"/]*"')
fail=$(echo "$out" | grep -c '"Action":"fail","Package":"[^"]*","Test":"[^"/]*"')
echo "baseline: top-level tests passed=$pass failed=$fail"
if [ "$fail" != 0 ] || [ "$pass" -lt 365 ]; then
  echo "$out" | grep '"Action":"fail"' | head -20
  echo "$out" | grep -v '^{' | head -20
  exit 1
fi
git -C "$REPO" status --short | grep -v '^??' | head
exit 0
