package checks

import (
	"math"

	"github.com/go-gl/mathgl/mgl64"
	closest "github.com/trajectoryjp/closest_go"
	geodesy "github.com/trajectoryjp/geodesy_go/coordinates"
	"github.com/trajectoryjp/spatial_id_go/v4/common/enum"
	"github.com/trajectoryjp/spatial_id_go/v4/common/object"
	"github.com/trajectoryjp/spatial_id_go/v4/operated"
	"github.com/trajectoryjp/spatial_id_go/v4/shape"
	"github.com/trajectoryjp/spatial_id_go/v4/transform"
	"pgregory.net/rapid"

	"verif/ref"
)

type CaseC14 struct {
	S, E   Pt
	H, V   int64
	Radius F64
	U      F64 // radius in local voxel widths (information only)
}

// own geodetic -> earth-centred cartesian conversion (WGS84), independent of the library's dependency
func ecef(lonDeg, latDeg, h float64) [3]float64 {
	const a = 6378137.0
	const f = 1 / 298.257223563
	e2 := f * (2 - f)
	phi, lam := latDeg*math.Pi/180, lonDeg*math.Pi/180
	n := a / math.Sqrt(1-e2*math.Sin(phi)*math.Sin(phi))
	return [3]float64{(n + h) * math.Cos(phi) * math.Cos(lam), (n + h) * math.Cos(phi) * math.Sin(lam), (n*(1-e2) + h) * math.Sin(phi)}
}

func sub3(a, b [3]float64) [3]float64 { return [3]float64{a[0] - b[0], a[1] - b[1], a[2] - b[2]} }
func dot3(a, b [3]float64) float64    { return a[0]*b[0] + a[1]*b[1] + a[2]*b[2] }
func len3(a [3]float64) float64       { return math.Sqrt(dot3(a, a)) }

// distPointSeg: distance from p to the straight segment a-b.
func distPointSeg(p, a, b [3]float64) float64 {
	ab := sub3(b, a)
	l2 := dot3(ab, ab)
	if l2 == 0 {
		return len3(sub3(p, a))
	}
	t := dot3(sub3(p, a), ab) / l2
	t = math.Max(0, math.Min(1, t))
	q := [3]float64{a[0] + t*ab[0], a[1] + t*ab[1], a[2] + t*ab[2]}
	return len3(sub3(p, q))
}

// footprintDistance returns a lower and an upper bound of the distance between the voxel's footprint
// (quadrilateral spanned by its four corners on the ellipsoid) and the chord a-b.
// stopBelow: the search stops as soon as the lower bound is known to be <= stopBelow (the caller only asks whether the
// footprint is farther than that); pass a negative value for the exact bounds.
func footprintDistance(b ref.Box, a3, b3 [3]float64, stopBelow float64) (lower, upper float64) {
	w, e := ref.ColWestLon(b.X, b.H), ref.ColWestLon(b.X+1, b.H)
	n, s := ref.RowNorthLat(b.Y, b.H), ref.RowNorthLat(b.Y+1, b.H)
	c00, c10, c01, c11 := ecef(w, n, 0), ecef(e, n, 0), ecef(w, s, 0), ecef(e, s, 0)
	const k = 24
	min := math.Inf(1)
	side0 := math.Max(math.Max(len3(sub3(c00, c10)), len3(sub3(c01, c11))), math.Max(len3(sub3(c00, c01)), len3(sub3(c10, c11))))
	g0 := side0 / (k - 1) * math.Sqrt2 / 2
	for i := 0; i < k; i++ {
		u := float64(i) / (k - 1)
		for j := 0; j < k; j++ {
			v := float64(j) / (k - 1)
			var p [3]float64
			for d := 0; d < 3; d++ {
				p[d] = (1-u)*(1-v)*c00[d] + u*(1-v)*c10[d] + (1-u)*v*c01[d] + u*v*c11[d]
			}
			if dd := distPointSeg(p, a3, b3); dd < min {
				min = dd
				if min-g0 <= stopBelow {
					return math.Max(0, min-g0), min
				}
			}
		}
	}
	side := math.Max(math.Max(len3(sub3(c00, c10)), len3(sub3(c01, c11))), math.Max(len3(sub3(c00, c01)), len3(sub3(c10, c11))))
	g := side / (k - 1) * math.Sqrt2 / 2
	return math.Max(0, min-g), min
}

func genC14(t *rapid.T) *CaseC14 {
	c := &CaseC14{}
	c.H = rapid.OneOf(rapid.Int64Range(4, 35), rapid.SampledFrom([]int64{4, 5, 25, 30, 31, 35})).Draw(t, "h")
	c.V = genZoom(t, "v", 0, 35)
	tiny := rapid.IntRange(0, 11).Draw(t, "tinyGrid") == 0
	if tiny {
		c.H = rapid.Int64Range(2, 3).Draw(t, "hTiny")
	}
	c.S = Pt{F64(genLon(t, "lon", c.H)), F64(math.Max(-80, math.Min(80, genLat(t, "lat", c.H)))), F64(genAlt(t, "alt", c.V))}
	wl, hl, ra := localSizes(c.S, c.H, c.V)
	maxSteps := 7.0
	if tiny {
		maxSteps = 0.4
	}
	step := func(label string) float64 {
		switch rapid.IntRange(0, 2).Draw(t, label+"_k") {
		case 0:
			return float64(rapid.IntRange(-3, 3).Draw(t, label))
		default:
			return rapid.Float64Range(-maxSteps, maxSteps).Draw(t, label)
		}
	}
	dx, dy, dz := step("dx"), step("dy"), step("dz")
	if tiny {
		dx, dy = math.Max(-0.4, math.Min(0.4, dx)), math.Max(-0.4, math.Min(0.4, dy))
	}
	switch rapid.IntRange(0, 4).Draw(t, "shape") {
	case 0:
		dy, dz = 0, 0
	case 1:
		dx, dz = 0, 0
	case 2:
		dz = 0
	}
	c.E = clampPt(Pt{F64(c.S.Lon.V() + dx*wl), F64(c.S.Lat.V() - dy*hl), F64(c.S.Alt.V() + dz*ra)})
	if c.E.Lat.V() > 80 {
		c.E.Lat = 80
	}
	if c.E.Lat.V() < -80 {
		c.E.Lat = -80
	}
	// radius in units of the local voxel width in metres
	widthM := wl * math.Pi / 180 * 6378137 * math.Cos(c.S.Lat.V()*math.Pi/180)
	var u float64
	switch rapid.IntRange(0, 4).Draw(t, "rk") {
	case 0:
		u = 0
	case 1:
		u = rapid.Float64Range(0, 0.5).Draw(t, "u")
	default:
		u = rapid.Float64Range(0, 2.5).Draw(t, "u")
	}
	if tiny && u > 0.25 {
		u = 0.25
	}
	if !tiny && c.H >= 8 && rapid.IntRange(0, 39).Draw(t, "wideRadius") == 23 {
		// a wide corridor: 2.5 .. 13 voxel widths around a short segment; the vertical zoom is lowered until one
		// vertical layer suffices, so the search box stays at a few thousand voxels
		u = rapid.Float64Range(2.5, 13).Draw(t, "uWide")
		c.E = clampPt(Pt{F64(c.S.Lon.V() + math.Max(-2, math.Min(2, dx))*wl), F64(c.S.Lat.V() - math.Max(-2, math.Min(2, dy))*hl), c.S.Alt})
		for c.V > 0 && math.Ldexp(1, int(25-c.V)) < u*widthM {
			c.V--
		}
	}
	r := math.Min(u*widthM, c14RadiusCap(c.S, c.E, c.H))
	c.U = F64(r / widthM)
	c.Radius = F64(r)
	return c
}

// c14RadiusCap: the clearance fit grows its layer count until the shifted voxel is farther away than the radius
// and never terminates once the radius exceeds the largest distance reachable on the voxel's row (2R cos(lat)).
// The property quantifies only over terminating inputs: keep the radius below a quarter of that distance,
// taken at the poleward edge of the rows the end points lie in (at low zooms a row reaches far beyond the point).
func c14RadiusCap(s, e Pt, h int64) float64 {
	phi := 0.0
	n := math.Ldexp(1, int(h))
	for _, p := range []Pt{s, e} {
		// poleward edge of the row that contains the point: voxels of that row reach up to there
		y := clamp64(int64(math.Floor(ref.MercFrac64(p.Lat.V())*n)), 0, int64(n)-1)
		phi = math.Max(phi, math.Max(math.Abs(ref.RowNorthLat(y, h)), math.Abs(ref.RowNorthLat(y+1, h))))
	}
	return 0.5 * 6378137 * math.Cos(phi*math.Pi/180)
}

func classifyC14(c *CaseC14) (bool, []string) {
	var cl []string
	if c.Radius.V() == 0 {
		cl = append(cl, "radius=0")
	} else if c.U.V() < 0.5 {
		cl = append(cl, "radius<0.5-voxel")
	} else {
		cl = append(cl, "radius>=0.5-voxel")
	}
	if c.U.V() > 2.5 {
		cl = append(cl, "wide-corridor(>2.5-voxel-widths)")
	}
	if c.U.V() >= 7 {
		cl = append(cl, "wide-corridor(>=7-voxel-widths)")
	}
	if c.H <= 3 {
		cl = append(cl, "h<=3")
	}
	if c.H >= 30 {
		cl = append(cl, "h>=30")
	}
	// non-triviality depends on the results and is counted by the check (counter c14_filter_effective)
	return c.Radius.V() > 0, cl
}

func checkC14(c *CaseC14, fl *Fails) {
	s, e := c.S.obj(), c.E.obj()
	if s == nil || e == nil {
		fl.Add("valid-point-rejected", "NewPoint rejected %+v / %+v", c.S, c.E)
		return
	}
	r := c.Radius.V()
	if r > c14RadiusCap(c.S, c.E, c.H)*1.0000001 || c.H < 2 {
		return // outside the terminating domain (only reachable through a hand-written replay file)
	}
	desc := jsonStr(c)
	line, err := shape.GetExtendedSpatialIdsOnLine(s, e, c.H, c.V)
	if err != nil {
		fl.Add("error", "%s: line: %v", desc, err)
		return
	}
	skipped, err := transform.GetExtendedSpatialIdsWithinRadiusOfLine(s, e, r, c.H, c.V, true)
	if err != nil {
		fl.Add("error", "%s: corridor (skip): %v", desc, err)
		return
	}
	measured, err := transform.GetExtendedSpatialIdsWithinRadiusOfLine(s, e, r, c.H, c.V, false)
	if err != nil {
		fl.Add("error", "%s: corridor (measured): %v", desc, err)
		return
	}
	lineSet := map[string]struct{}{}
	for _, id := range line {
		lineSet[id] = struct{}{}
	}
	// error clause: a negative radius or an invalid zoom is an error (on the same, otherwise valid, arguments)
	neg := -r
	if r == 0 {
		neg = -float64(c.H+1) * 1e-3
	}
	for _, skip := range []bool{true, false} {
		if res, err := transform.GetExtendedSpatialIdsWithinRadiusOfLine(s, e, neg, c.H, c.V, skip); err == nil {
			fl.Add("negative-radius-accepted", "%s: radius %v accepted (%d ids)", desc, neg, len(res))
		}
	}
	for _, z := range [][2]int64{{36, c.V}, {c.H, 36}, {-1, c.V}, {c.H, -1}} {
		if res, err := transform.GetExtendedSpatialIdsWithinRadiusOfLine(s, e, r, z[0], z[1], true); err == nil {
			fl.Add("invalid-zoom-accepted", "%s: zooms %d/%d accepted (%d ids)", desc, z[0], z[1], len(res))
		}
	}
	// layer counts reported by the clearance fit for the voxels of the line: the maximum over all of them
	var hMax, vMax int64
	for _, id := range line {
		hl, vl, ferr := transform.FitClearanceAroundExtendedSpatialID(id, r)
		if ferr != nil {
			fl.Add("error", "%s: FitClearanceAroundExtendedSpatialID(%s): %v", desc, id, ferr)
			return
		}
		hMax, vMax = max64(hMax, hl), max64(vMax, vl)
	}
	box, err := operated.GetNspatialIdsAroundVoxcels(line, hMax, vMax)
	if err != nil {
		fl.Add("error", "%s: neighbourhood: %v", desc, err)
		return
	}
	// the search box, from the reference model (modular shifts of the line's voxels), and the library's own
	// neighbourhood function on the same arguments: they must agree (C08), and every added ID must lie inside
	boxSet := map[string]struct{}{}
	for _, id := range line {
		b, perr := ref.ParseExt(id)
		if perr != nil {
			fl.Add("format", "%s: line id: %v", desc, perr)
			return
		}
		for dx := -hMax; dx <= hMax; dx++ {
			for dy := -hMax; dy <= hMax; dy++ {
				for dv := -vMax; dv <= vMax; dv++ {
					boxSet[ref.Shift(b, dx, dy, dv).Ext()] = struct{}{}
				}
			}
		}
	}
	for _, id := range box {
		if _, ok := boxSet[id]; !ok {
			fl.Add("search-box-differs", "%s: GetNspatialIdsAroundVoxcels(line, %d, %d) contains %s, which is not a modular shift of a line voxel", desc, hMax, vMax, id)
			break
		}
	}
	skippedSet := map[string]struct{}{}
	for _, id := range skipped {
		skippedSet[id] = struct{}{}
	}
	a3, b3 := ecef(s.Lon(), s.Lat(), 0), ecef(e.Lon(), e.Lat(), 0)
	for name, res := range map[string][]string{"skipped": skipped, "measured": measured} {
		if d, dup := hasDup(res); dup {
			fl.Add("duplicate", "%s: %s result contains %s twice", desc, name, d)
		}
		set := map[string]struct{}{}
		for _, id := range res {
			set[id] = struct{}{}
			b, perr := ref.ParseExt(id)
			if perr != nil {
				fl.Add("format", "%s: %v", desc, perr)
				return
			}
			if b.H != c.H || b.V != c.V {
				fl.Add("zoom-field", "%s: %s result %s is not at the requested zooms", desc, name, id)
			}
			if n := int64(1) << uint(c.H); b.X < 0 || b.X >= n || b.Y < 0 || b.Y >= n {
				fl.Add("not-a-voxel", "%s: %s result %s has a horizontal index outside 0..2^%d-1", desc, name, id, c.H)
			}
			if _, onLine := lineSet[id]; onLine {
				continue
			}
			if _, in := boxSet[id]; !in {
				fl.Add("outside-search-box-"+name, "%s: %s result contains %s, outside the %d/%d layers the clearance fit reports for the line's voxels", desc, name, id, hMax, vMax)
				break
			}
		}
		for id := range lineSet {
			if _, ok := set[id]; !ok {
				fl.Add("line-missing", "%s: %s result lacks the line voxel %s", desc, name, id)
				break
			}
		}
		if r == 0 && len(set) != len(lineSet) {
			fl.Add("radius-zero", "%s: radius 0 but the %s result has %d ids, the line %d", desc, name, len(set), len(lineSet))
		}
	}
	// measured is a subset of skipped
	nAdded := 0
	for _, id := range measured {
		if _, ok := skippedSet[id]; !ok {
			fl.Add("measured-not-subset", "%s: %s is in the measured result but not in the result with the measurement skipped", desc, id)
			break
		}
		if _, onLine := lineSet[id]; !onLine {
			nAdded++
		}
	}
	// no added voxel farther than the radius (independent distance: rigorous lower bound from footprint samples)
	lowerOf := map[[2]int64]float64{} // per footprint (the vertical index does not matter)
	for _, id := range measured {
		if _, onLine := lineSet[id]; onLine {
			continue
		}
		b, _ := ref.ParseExt(id)
		lower, seen := lowerOf[[2]int64{b.X, b.Y}]
		if !seen {
			lower, _ = footprintDistance(b, a3, b3, 1.001*r+1e-6)
			lowerOf[[2]int64{b.X, b.Y}] = lower
		}
		if lower > 1.001*r+1e-6 {
			// root-cause split: the library's distance comes from the GJK routine of its dependency closest_go, applied
			// to the flat hull it builds (the voxel's corners with the latitude passed as height). If a fresh evaluation
			// of that routine on the same inputs already reports less than the radius, the wrong answer is the
			// dependency's (known finding F13); otherwise the filter itself let the voxel through.
			kind := "too-far"
			if g := c14DependencyDistance(s, e, id); g < r {
				kind = "too-far-gjk"
			}
			fl.Add(kind, "%s: added voxel %s is at least %.6g m from the segment, radius %.6g m", desc, id, lower, r)
			break
		}
	}
	if nAdded > 0 && len(measured) < len(skipped) {
		Count("c14_filter_effective", 1)
	}
	Count("c14_line_voxels", int64(len(line)))
	Count("c14_added_measured", int64(nAdded))
	Count("c14_box_size", int64(len(skipped)))
}

// c14DependencyDistance evaluates the dependency's GJK distance exactly as the library sets it up, with a fresh measure.
func c14DependencyDistance(s, e *object.Point, id string) float64 {
	var cps []geodesy.Geocentric
	for _, p := range []*object.Point{s, e} {
		cps = append(cps, geodesy.GeocentricFromGeodetic(geodesy.Geodetic{p.Lon(), p.Lat(), p.Lat()}))
	}
	m := closest.Measure{}
	m.ConvexHulls[0] = []*mgl64.Vec3{(*mgl64.Vec3)(&cps[0]), (*mgl64.Vec3)(&cps[1])}
	vs, err := shape.GetPointOnExtendedSpatialId(id, enum.Vertex)
	if err != nil {
		return math.Inf(1)
	}
	var hull []*mgl64.Vec3
	for _, v := range vs {
		c := geodesy.GeocentricFromGeodetic(geodesy.Geodetic{v.Lon(), v.Lat(), v.Lat()})
		hull = append(hull, (*mgl64.Vec3)(&c))
	}
	m.ConvexHulls[1] = hull
	m.MeasureNonnegativeDistance()
	return m.Distance
}

func init() {
	matchers["c14-dependency-gjk"] = func(c any, f Fail) bool { return f.Kind == "too-far-gjk" }
}

func sweepC14(tier string, emit func(*CaseC14)) {
	// long routes: thousands of line voxels in one call (an implementation that works through the line in slabs or
	// batches must still return a duplicate-free result that contains the line)
	long := []float64{9000.4}
	if tier != "quick" {
		long = []float64{1100.4, 4200.4, 9000.4, 20000.4}
	}
	for _, n := range long {
		base := Pt{F64(139.788452), F64(35.670935), F64(100)}
		wl, _, _ := localSizes(base, 25, 10)
		widthM := wl * math.Pi / 180 * 6378137 * math.Cos(base.Lat.V()*math.Pi/180)
		emit(&CaseC14{S: base, E: Pt{F64(base.Lon.V() + n*wl), base.Lat, base.Alt}, H: 25, V: 10, Radius: F64(0.3 * widthM), U: 0.3})
	}
	// the three scenarios of the repository's own tests, with the radius varied
	for _, u := range []float64{0, 0.3, 1.2} {
		for _, h := range []int64{4, 18, 23, 31} {
			base := Pt{F64(139.788452), F64(35.670935), F64(100)}
			wl, hl, ra := localSizes(base, h, 23)
			widthM := wl * math.Pi / 180 * 6378137 * math.Cos(base.Lat.V()*math.Pi/180)
			emit(&CaseC14{S: base, E: clampPt(Pt{F64(base.Lon.V() + 3.4*wl), F64(base.Lat.V() - 2.2*hl), F64(base.Alt.V() + 1.5*ra)}), H: h, V: 23, Radius: F64(u * widthM), U: F64(u)})
		}
	}
}

func init() {
	register(PropT[CaseC14]{
		ID:   "C14",
		Rule: "rapid: hZoom 4..35 (1/12 of the cases 2..3 with radius <= 0.25 voxel widths and both ends inside one voxel width), vZoom 0..35, start point with |lat|<=80, end within 7 voxels per axis (axis-parallel, horizontal or 3-D), radius = u x local voxel width in metres with u = 0 (20%), <0.5 (20%) or <2.5; each case runs the line query, the corridor with and without the distance measurement, the clearance fit of every line voxel and the N-layer neighbourhood. Non-trivial (counted by the generator rule): radius > 0; the evidence counter c14_filter_effective counts the cases whose measured result is strictly between the line and the full box. Sweep: the repository's Tokyo scenario at 4 zooms x 3 radii.",
		Assumptions: []string{
			"oracle: relations to GetExtendedSpatialIdsOnLine, FitClearanceAroundExtendedSpatialID (maximum over all line voxels, so robust to which voxel the code measures) and GetNspatialIdsAroundVoxcels on the same arguments",
			"distance: own WGS84 geodetic->ECEF formulas; rigorous lower bound of the distance between the voxel's footprint quadrilateral (24x24 bilinear samples, minus half a sample-cell diagonal) and the chord; violation only if that lower bound exceeds 1.001*radius + 1e-6 m",
			"checked only where the layer fit terminates (stencil narrower than the grid), as in the property's quantifier",
		},
		Gen: genC14, Check: checkC14, Classify: classifyC14, Sweep: sweepC14,
		// a corridor must not depend on corridors converted before: for one case in three, the same segment is
		// translated along its row (same zooms, bit-identical radius, other columns - near and ~0.18 degrees away), and
		// the original is checked again afterwards
		Related: func(c *CaseC14) []*CaseC14 {
			if c.H < 4 || c.Radius.V() <= 0 || c.U.V() > 2.5 || math.Float64bits(c.S.Lon.V())%3 != 0 {
				return nil
			}
			wl, _, _ := localSizes(c.S, c.H, c.V)
			var out []*CaseC14
			for _, k := range []float64{3, math.Max(5, math.Ldexp(1, int(c.H)-11))} {
				d := k * wl
				if math.Max(c.S.Lon.V(), c.E.Lon.V())+d > 179.9 {
					d = -d
				}
				r := *c
				r.S.Lon, r.E.Lon = F64(c.S.Lon.V()+d), F64(c.E.Lon.V()+d)
				if math.Abs(r.S.Lon.V()) > 179.9 || math.Abs(r.E.Lon.V()) > 179.9 {
					continue
				}
				out = append(out, &r)
			}
			return out
		},
		SweepScopes: func(tier string) []string {
			return []string{"Tokyo scenario: hZoom in {4,18,23,31} x radius in {0, 0.3, 1.2} voxel widths"}
		},
	})
}
