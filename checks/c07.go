package checks

import (
	"math"

	"github.com/trajectoryjp/spatial_id_go/v4/operated"
	"pgregory.net/rapid"

	"verif/ref"
)

type CaseC07 struct {
	Box           ref.Box
	DX, DY, DV    int64
	DX2, DY2, DV2 int64
	Spell         int64 `json:",omitempty"`
}

func genHShift(t *rapid.T, label string, h int64) int64 {
	n := int64(1) << uint(h)
	switch rapid.IntRange(0, 2).Draw(t, label+"_kind") {
	case 0:
		return rapid.SampledFrom([]int64{0, 1, -1, n, -n, n - 1, -(n - 1), n + 1, -(n + 1), 2 * n, -2 * n, 4 * n, -4 * n, 4*n - 1, -4*n + 1}).Draw(t, label)
	case 1:
		return rapid.Int64Range(-3, 3).Draw(t, label)
	default:
		return rapid.Int64Range(-4*n, 4*n).Draw(t, label)
	}
}

func genVShift(t *rapid.T, label string) int64 {
	switch rapid.IntRange(0, 2).Draw(t, label+"_kind") {
	case 0:
		return rapid.SampledFrom([]int64{0, 1, -1, 1 << 35, -(1 << 35), 1 << 61, -(1 << 61), math.MaxInt32, math.MinInt32}).Draw(t, label)
	case 1:
		return rapid.Int64Range(-5, 5).Draw(t, label)
	default:
		return rapid.Int64Range(-(1<<61), 1<<61).Draw(t, label)
	}
}

func genC07(t *rapid.T) *CaseC07 {
	c := &CaseC07{Box: genBox(t, "b")}
	c.DX, c.DY, c.DV = genHShift(t, "dx", c.Box.H), genHShift(t, "dy", c.Box.H), genVShift(t, "dv")
	c.DX2, c.DY2, c.DV2 = genHShift(t, "dx2", c.Box.H), genHShift(t, "dy2", c.Box.H), genVShift(t, "dv2")
	c.Spell = genSpell(t)
	return c
}

func classifyC07(c *CaseC07) (bool, []string) {
	var cl []string
	nt := false
	n := int64(1) << uint(c.Box.H)
	wrap := func(i, d int64) bool { return i+d < 0 || i+d >= n }
	if wrap(c.Box.X, c.DX) || wrap(c.Box.Y, c.DY) {
		nt = true
		cl = append(cl, "wraps")
	}
	if c.Box.X+c.DX < 0 || c.Box.Y+c.DY < 0 {
		cl = append(cl, "wraps-negative")
	}
	if c.Box.H >= 32 {
		nt = true
		cl = append(cl, "h>=32")
	}
	if c.Box.H == 0 {
		nt = true
		cl = append(cl, "h=0")
	}
	if c.DX == 0 && c.DY == 0 && c.DV == 0 {
		cl = append(cl, "zero-shift")
	}
	if absI(c.DX) > n || absI(c.DY) > n {
		cl = append(cl, "more-than-one-world-width")
	}
	return nt, cl
}

func absI(v int64) int64 {
	if v < 0 {
		return -v
	}
	return v
}

func checkC07(c *CaseC07, fl *Fails) {
	id := c.Box.Ext()
	if c.Spell != 0 {
		// a non-canonical spelling of the same ID must be shifted to the same (canonical) result
		if g := operated.GetShiftingSpatialID(spelledExt([]ref.Box{c.Box}, c.Spell)[0], c.DX, c.DY, c.DV); g != ref.Shift(c.Box, c.DX, c.DY, c.DV).Ext() {
			fl.Add("shift-spelling", "shift(%s, %d,%d,%d) = %q, modular reference %q", spelledExt([]ref.Box{c.Box}, c.Spell)[0], c.DX, c.DY, c.DV, g, ref.Shift(c.Box, c.DX, c.DY, c.DV).Ext())
		}
	}
	got := operated.GetShiftingSpatialID(id, c.DX, c.DY, c.DV)
	want := ref.Shift(c.Box, c.DX, c.DY, c.DV).Ext()
	if got != want {
		fl.Add("shift", "shift(%s, %d,%d,%d) = %q, modular reference %q", id, c.DX, c.DY, c.DV, got, want)
		return
	}
	if z := operated.GetShiftingSpatialID(id, 0, 0, 0); z != id {
		fl.Add("identity", "shift(%s, 0,0,0) = %q", id, z)
	}
	// composition
	two := operated.GetShiftingSpatialID(got, c.DX2, c.DY2, c.DV2)
	sum := operated.GetShiftingSpatialID(id, c.DX+c.DX2, c.DY+c.DY2, c.DV+c.DV2)
	if two != sum {
		fl.Add("composition", "shift(shift(%s,(%d,%d,%d)),(%d,%d,%d)) = %q but shift by the sum = %q", id, c.DX, c.DY, c.DV, c.DX2, c.DY2, c.DV2, two, sum)
	}
	if w2 := ref.Shift(ref.Shift(c.Box, c.DX, c.DY, c.DV), c.DX2, c.DY2, c.DV2).Ext(); two != w2 {
		fl.Add("shift", "second shift: got %q, reference %q", two, w2)
	}
	// inverse
	if back := operated.GetShiftingSpatialID(got, -c.DX, -c.DY, -c.DV); back != id {
		fl.Add("inverse", "shifting %s back by (%d,%d,%d) gives %q, not %s", got, -c.DX, -c.DY, -c.DV, back, id)
	}
}

func sweepC07(tier string, emit func(*CaseC07)) {
	// vertical shifts that take the index to the ends of the 64-bit range (and back): "any vertical shift that keeps the
	// index within 64 bits"
	for _, f := range []int64{-5, 0, 7, (1 << 35) - 1, -(1 << 35)} {
		for _, k := range []int64{0, 1, 2, 511, 512, 513, 1023, 1024, 1025, 4096} {
			b := ref.Box{H: 20, X: 931277, Y: 412899, V: 35, F: f}
			up := math.MaxInt64 - k - f
			emit(&CaseC07{Box: b, DX: 1, DY: -1, DV: up, DX2: -1, DY2: 1, DV2: -up})
			if f <= 0 {
				down := math.MinInt64 + k - f
				emit(&CaseC07{Box: b, DX: 0, DY: 0, DV: down, DX2: 2, DY2: 2, DV2: -down})
			}
		}
	}
	maxH := int64(3)
	if tier == "quick" {
		maxH = 2
	}
	for h := int64(0); h <= maxH; h++ {
		n := int64(1) << uint(h)
		for x := int64(0); x < n; x++ {
			for y := int64(0); y < n; y++ {
				for dx := -2*n - 1; dx <= 2*n+1; dx++ {
					for dy := -2*n - 1; dy <= 2*n+1; dy++ {
						emit(&CaseC07{Box: ref.Box{H: h, X: x, Y: y, V: 3, F: -2}, DX: dx, DY: dy, DV: dx - dy, DX2: dy, DY2: -dx, DV2: 1})
					}
				}
			}
		}
	}
	for h := int64(4); h <= 35; h++ {
		n := int64(1) << uint(h)
		for _, x := range []int64{0, n - 1, n / 2} {
			for _, d := range []int64{-4 * n, -n - 1, -n, -1, 0, 1, n - 1, n, n + 1, 4 * n} {
				emit(&CaseC07{Box: ref.Box{H: h, X: x, Y: n - 1 - x, V: 35, F: -(1 << 35)}, DX: d, DY: -d, DV: -1, DX2: -d, DY2: d, DV2: 1 << 40})
			}
		}
	}
}

func init() {
	register(PropT[CaseC07]{
		ID:          "C07",
		Rule:        "rapid: valid box at any zooms x two shifts; dx,dy from {0,+-1,+-2^h,+-(2^h-1),+-(2^h+1),+-2*2^h,+-4*2^h,...} or uniform in [-4*2^h,4*2^h]; dv from edge constants or uniform in +-2^61. Sweep: every box at h<=3 x every dx,dy in [-2*2^h-1, 2*2^h+1]; edge boxes and shifts at h=4..35. Non-trivial: a wrap occurs on x or y, or h>=32, or h=0.",
		Assumptions: []string{"oracle: integer modular arithmetic; results compared as strings", "vertical shifts limited to +-2^61 so that index sums stay inside int64"},
		Gen:         genC07, Check: checkC07, Classify: classifyC07, Sweep: sweepC07,
		Related: func(c *CaseC07) []*CaseC07 {
			var out []*CaseC07
			if b := (ref.Box{H: c.Box.H + 1, X: c.Box.X, Y: c.Box.Y, V: c.Box.V + 1, F: c.Box.F}); b.Valid() {
				out = append(out, &CaseC07{Box: b, DX: c.DX, DY: c.DY, DV: c.DV, DX2: c.DX2, DY2: c.DY2, DV2: c.DV2})
			}
			out = append(out, &CaseC07{Box: c.Box, DX: c.DY, DY: c.DX, DV: -c.DV, DX2: c.DX2, DY2: c.DY2, DV2: c.DV2})
			return out
		},
		SweepScopes: func(tier string) []string {
			if tier == "quick" {
				return []string{"every box at h<=2 x every (dx,dy) in [-2*2^h-1, 2*2^h+1]^2 (exhaustive)", "h=4..35: 3 edge tiles x 10 edge shifts"}
			}
			return []string{"every box at h<=3 x every (dx,dy) in [-2*2^h-1, 2*2^h+1]^2 (exhaustive)", "h=4..35: 3 edge tiles x 10 edge shifts"}
		},
	})
}
