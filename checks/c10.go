package checks

import (
	"github.com/trajectoryjp/spatial_id_go/v4/shape"
	"github.com/trajectoryjp/spatial_id_go/v4/transform"
	"pgregory.net/rapid"

	"verif/ref"
)

type CaseC10 struct {
	HV  []ref.Box // boxes with H == V: notation round trip as a list
	Any []ref.Box // boxes at any zooms: object parse / print, voxel id extraction
	Exp ref.Box   // box with |h-v| <= 5 (sweep: larger): expansion into single-zoom IDs
	// Procs: check the case under every other scheduler width as well (large expansions)
	Procs bool  `json:",omitempty"`
	Reuse int64 `json:",omitempty"` // != 0: ID objects are re-used objects (Reset / setters)
}

func (c *CaseC10) WantsProcs() bool { return c.Procs }

func genC10(t *rapid.T) *CaseC10 {
	c := &CaseC10{}
	nhv := rapid.IntRange(0, 8).Draw(t, "nhv")
	if rapid.IntRange(0, 49).Draw(t, "long") == 0 {
		nhv = rapid.SampledFrom([]int{33, 64, 65, 130, 300}).Draw(t, "nLong")
	}
	for i := nhv; i > 0; i-- {
		z := genZoom(t, "z", 0, 35)
		c.HV = append(c.HV, genBoxAt(t, "hv", z, z))
	}
	for i := rapid.IntRange(0, 4).Draw(t, "nany"); i > 0; i-- {
		c.Any = append(c.Any, genBox(t, "any"))
	}
	h := genZoom(t, "eh", 0, 35)
	v := clamp64(h+rapid.Int64Range(-5, 5).Draw(t, "ed"), 0, 35)
	c.Exp = genBoxAt(t, "exp", h, v)
	if rapid.IntRange(0, 19).Draw(t, "decimal") == 0 {
		// an output index of the expansion crosses / ends at a decimal roll-over (k*10^m - 1 | k*10^m): string building
		vz := rapid.Int64Range(10, 35).Draw(t, "dv")
		d := rapid.Int64Range(1, 5).Draw(t, "dd")
		m := rapid.IntRange(3, 10).Draw(t, "dm")
		p := int64(1)
		for i := 0; i < m; i++ {
			p *= 10
		}
		lim := int64(1) << uint(vz)
		if p*2 < lim {
			k := rapid.Int64Range(1, (lim-1)/p).Draw(t, "dk")
			child := k*p - rapid.Int64Range(0, 1).Draw(t, "dside")
			e := ref.Box{H: vz - d, V: vz, F: genF(t, "df", vz)}
			e.X = genIndex(t, "dx", 0, (int64(1)<<uint(e.H))-1)
			e.Y = child >> uint(d)
			if rapid.Bool().Draw(t, "dswap") {
				e.X, e.Y = e.Y, e.X
			}
			if rapid.IntRange(0, 3).Draw(t, "dvert") == 0 {
				// the vertical axis is the expanded one
				e = ref.Box{H: vz, X: genIndex(t, "dx2", 0, lim-1), Y: genIndex(t, "dy2", 0, lim-1), V: vz - d, F: (child >> uint(d)) * rapid.SampledFrom([]int64{1, -1}).Draw(t, "dsign")}
			}
			if e.Valid() {
				c.Exp = e
			}
		}
	}
	c.Reuse = genReuse(t)
	return c
}

func distinct5(b ref.Box) bool {
	m := map[int64]struct{}{b.H: {}, b.X: {}, b.Y: {}, b.V: {}, b.F: {}}
	return len(m) == 5
}

func classifyC10(c *CaseC10) (bool, []string) {
	var cl []string
	nt := false
	all := append(append(append([]ref.Box{}, c.HV...), c.Any...), c.Exp)
	for _, b := range all {
		if distinct5(b) {
			nt = true
			cl = append(cl, "all-components-distinct")
		}
		if b.F < 0 {
			nt = true
			cl = append(cl, "f<0")
		}
		if b.H != b.V {
			nt = true
			cl = append(cl, "h!=v")
		}
	}
	switch {
	case c.Exp.H < c.Exp.V:
		cl = append(cl, "expansion:h<v")
	case c.Exp.H > c.Exp.V:
		cl = append(cl, "expansion:h>v")
	default:
		cl = append(cl, "expansion:h==v")
	}
	if len(c.HV) >= 2 {
		cl = append(cl, "list>=2")
	}
	return nt, uniq(cl)
}

func checkC10(c *CaseC10, fl *Fails) {
	// (a) notation round trip, element-wise
	sp := spatialIDs(c.HV)
	ext, err := shape.ConvertSpatialIdsToExtendedSpatialIds(sp)
	if err != nil {
		fl.Add("error", "ConvertSpatialIdsToExtendedSpatialIds(%v): %v", sp, err)
	} else if len(ext) != len(sp) {
		fl.Add("length", "spatial->extended: %d ids for %d inputs", len(ext), len(sp))
	} else {
		for i := range ext {
			if ext[i] != c.HV[i].Ext() {
				fl.Add("to-extended", "element %d: %s -> %q, expected %s", i, sp[i], ext[i], c.HV[i].Ext())
			}
		}
		back, err := shape.ConvertExtendedSpatialIdsToSpatialIds(ext)
		if err != nil || len(back) != len(sp) {
			fl.Add("error", "ConvertExtendedSpatialIdsToSpatialIds(%v): %v, %v", ext, back, err)
		} else {
			for i := range back {
				if back[i] != sp[i] {
					fl.Add("roundtrip", "element %d: %s -> %s -> %q", i, sp[i], ext[i], back[i])
				}
			}
		}
	}
	want := boxesExt(c.HV)
	sp2, err := shape.ConvertExtendedSpatialIdsToSpatialIds(want)
	if err != nil || len(sp2) != len(want) {
		fl.Add("error", "ConvertExtendedSpatialIdsToSpatialIds(%v): %v, %v", want, sp2, err)
	} else {
		for i := range sp2 {
			if sp2[i] != c.HV[i].Spatial() {
				fl.Add("to-spatial", "element %d: %s -> %q, expected %s", i, want[i], sp2[i], c.HV[i].Spatial())
			}
		}
	}
	// (b) object parse / print, (c) voxel id extraction
	for _, b := range append(append([]ref.Box{}, c.Any...), c.Exp) {
		s := b.Ext()
		o, err := mkExtObj(c.Reuse, s, b.H, b.X, b.Y, b.V, b.F)
		if err != nil {
			fl.Add("error", "NewExtendedSpatialID(%s): %v", s, err)
			continue
		}
		if o.ID() != s {
			fl.Add("print", "NewExtendedSpatialID(%s).ID() = %q", s, o.ID())
		}
		fp := o.FieldParams()
		if len(fp) != 5 || fp[0] != b.H || fp[1] != b.X || fp[2] != b.Y || fp[3] != b.V || fp[4] != b.F {
			fl.Add("field-params", "FieldParams of %s = %v", s, fp)
		}
		if o.HZoom() != b.H || o.X() != b.X || o.Y() != b.Y || o.VZoom() != b.V || o.Z() != b.F {
			fl.Add("accessors", "accessors of %s: h=%d x=%d y=%d v=%d z=%d", s, o.HZoom(), o.X(), o.Y(), o.VZoom(), o.Z())
		}
		vid := transform.GetVoxelIDfromSpatialID(s)
		if len(vid) != 3 || vid[0] != b.X || vid[1] != b.Y || vid[2] != b.F {
			fl.Add("voxel-id", "GetVoxelIDfromSpatialID(%s) = %v, expected [%d %d %d]", s, vid, b.X, b.Y, b.F)
		}
	}
	// (d) expansion
	b := c.Exp
	o, err := mkExtObj(c.Reuse, b.Ext(), b.H, b.X, b.Y, b.V, b.F)
	if err != nil {
		return
	}
	got := transform.ConvertExtendedSpatialIDToSpatialIDs(o)
	z := max64(b.H, b.V)
	if d := b.H - b.V; d >= 18 || d <= -9 {
		// huge expansion (more than 2^20 IDs): checked in one pass with a bitmap instead of a reference set
		c10Huge(b, got, fl)
		return
	}
	wantSet := map[string]struct{}{}
	for bx := range ref.ZoomSet([]ref.Box{b}, z, z) {
		wantSet[bx.Spatial()] = struct{}{}
	}
	if d, dup := hasDup(got); dup {
		fl.Add("expansion-duplicate", "expansion of %s returns %s twice", b.Ext(), d)
	}
	var wantN int
	switch {
	case b.H < b.V:
		wantN = 1 << uint(2*(b.V-b.H))
	case b.H > b.V:
		wantN = 1 << uint(b.H-b.V)
	default:
		wantN = 1
	}
	if len(got) != wantN {
		fl.Add("expansion-count", "expansion of %s has %d ids, expected %d", b.Ext(), len(got), wantN)
	}
	if miss, extra := diffSets(got, wantSet); len(miss)+len(extra) > 0 {
		fl.Add("expansion-region", "expansion of %s: missing %v, unexpected %v", b.Ext(), miss, extra)
	}
}

// c10Huge: every output must be z/f/x/y at the larger zoom with (x, y, f) inside the box's child ranges, each child
// exactly once (bitmap over the child index).
func c10Huge(b ref.Box, got []string, fl *Fails) {
	z := max64(b.H, b.V)
	dh, dv := uint(z-b.H), uint(z-b.V)
	wantN := int64(1) << (2*dh + dv)
	if int64(len(got)) != wantN {
		fl.Add("expansion-count", "expansion of %s has %d ids, expected %d", b.Ext(), len(got), wantN)
	}
	seen := make([]uint64, (wantN+63)/64)
	bad := 0
	for _, s := range got {
		var f [4]int64
		k, neg, ok := 0, false, len(s) > 0
		for i := 0; i < len(s) && ok; i++ {
			switch ch := s[i]; {
			case ch == '/':
				if neg {
					f[k] = -f[k]
				}
				k, neg = k+1, false
				ok = k < 4
			case ch == '-':
				neg = true
			case ch >= '0' && ch <= '9':
				f[k] = f[k]*10 + int64(ch-'0')
			default:
				ok = false
			}
		}
		if neg {
			f[k] = -f[k]
		}
		dx, dy, df := f[2]-(b.X<<dh), f[3]-(b.Y<<dh), f[1]-(b.F<<dv)
		if !ok || k != 3 || f[0] != z || dx < 0 || dx >= 1<<dh || dy < 0 || dy >= 1<<dh || df < 0 || df >= 1<<dv {
			if bad == 0 {
				fl.Add("expansion-region", "expansion of %s contains %q, which is not one of its %d cells at zoom %d", b.Ext(), s, wantN, z)
			}
			bad++
			continue
		}
		idx := ((dx<<dh)|dy)<<dv | df
		if seen[idx/64]&(1<<uint(idx%64)) != 0 {
			if bad == 0 {
				fl.Add("expansion-duplicate", "expansion of %s returns %s twice", b.Ext(), s)
			}
			bad++
			continue
		}
		seen[idx/64] |= 1 << uint(idx%64)
	}
	Count("c10_huge_expansion_ids", int64(len(got)))
}

func sweepC10(tier string, emit func(*CaseC10)) {
	// a million and more children whose index range starts / ends exactly at a multiple of 10^6 or 10^7 (z or z+1 a
	// multiple of 5^6 = 15625 at a zoom difference of 20; 5^7 at 21): decimal roll-overs inside a long run of indices
	for _, f := range []int64{15624, 15625, 31249, -15625, -15626, 78124} {
		if tier == "quick" && (f == 15625 || f == -15626) {
			continue
		}
		emit(&CaseC10{Exp: ref.Box{H: 35, X: 1, Y: 2, V: 15, F: f}})
	}
	emit(&CaseC10{Exp: ref.Box{H: 34, X: 1, Y: 2, V: 14, F: 15624}})
	if tier != "quick" {
		emit(&CaseC10{Exp: ref.Box{H: 35, X: 1, Y: 2, V: 14, F: 78124}})
		emit(&CaseC10{Exp: ref.Box{H: 35, X: 1, Y: 2, V: 14, F: 15624}})
	}
	// very long lists for the two notation conversions (lengths that are not multiples of 8 / 64 / 4096)
	for _, n := range []int{150000, 131081, 300007} {
		if tier == "quick" && n == 300007 {
			continue
		}
		emit(&CaseC10{HV: rowBoxes(n, 10, 10), Exp: ref.Box{H: 3, X: 1, Y: 2, V: 5, F: -7}})
	}
	if tier != "quick" {
		// every vertical zoom difference up to 24 (16.7 million IDs, ~1.5 GB) and horizontal differences 11, 12
		for _, d := range []int64{21, 22, 23, 24} {
			emit(&CaseC10{Exp: ref.Box{H: 2 + d, X: 5, Y: (int64(1) << uint(2+d)) - 3, V: 2, F: -3}})
		}
		for _, d := range []int64{11, 12} {
			emit(&CaseC10{Exp: ref.Box{H: 6, X: 37, Y: 5, V: 6 + d, F: -(int64(5) << uint(d)) - 1}})
		}
	}
	// large expansions (thousands to a million IDs), each also under other GOMAXPROCS values
	maxQuad, maxBin := int64(7), int64(14)
	if tier != "quick" {
		maxQuad, maxBin = 10, 20
	}
	for d := int64(6); d <= maxQuad; d++ {
		b := ref.Box{H: 9, X: 300 + d, Y: 511, V: 9 + d, F: -(int64(3) << uint(d)) - 1}
		emit(&CaseC10{Any: []ref.Box{b}, Exp: b, Procs: true})
	}
	for d := int64(6); d <= maxBin; d += 2 {
		b := ref.Box{H: 4 + d, X: (int64(1) << uint(4+d)) - 1, Y: 5, V: 4, F: -3}
		emit(&CaseC10{Any: []ref.Box{b}, Exp: b, Procs: true})
	}
	for i, n := range roundSizes {
		if tier == "quick" && i%3 != 1 {
			continue
		}
		emit(&CaseC10{HV: rowBoxes(n, 8, 8), Exp: ref.Box{H: 3, X: 1, Y: 2, V: 5, F: -7}})
	}
	for h := int64(0); h <= 2; h++ {
		for v := int64(0); v <= 2; v++ {
			for x := int64(0); x < 1<<uint(h); x++ {
				for y := int64(0); y < 1<<uint(h); y++ {
					for f := -(int64(1) << uint(v)); f < 1<<uint(v); f++ {
						b := ref.Box{H: h, X: x, Y: y, V: v, F: f}
						c := &CaseC10{Any: []ref.Box{b}, Exp: b}
						if h == v {
							c.HV = []ref.Box{b}
						}
						emit(c)
					}
				}
			}
		}
	}
	for h := int64(0); h <= 35; h++ {
		for v := max64(0, h-5); v <= min64(35, h+5); v++ {
			n := int64(1) << uint(h)
			m := int64(1) << uint(v)
			b := ref.Box{H: h, X: n - 1, Y: n / 3, V: v, F: -m}
			emit(&CaseC10{Any: []ref.Box{b}, Exp: b})
			b2 := ref.Box{H: h, X: 0, Y: n - 1, V: v, F: m - 1}
			emit(&CaseC10{Any: []ref.Box{b2}, Exp: b2})
		}
	}
}

func init() {
	register(PropT[CaseC10]{
		ID:          "C10",
		Rule:        "rapid: list (0..8) of h=v boxes for the notation round trip (element-wise, order), 0..4 boxes at any zooms for parse/print/field order/voxel-id, one box with |h-v|<=5 for the expansion; indices edge-weighted, half f<0. Sweep: all boxes at zooms<=2; all (h,v) with |h-v|<=5 at extreme indices. Non-trivial: some box has five pairwise distinct components, or f<0, or h!=v.",
		Assumptions: []string{"IDs are rendered and parsed by the reference independently of the library's object type", "expansion compared with the dyadic-box reference as an exact set (bounded to |h-v|<=5: 1024 outputs)"},
		Gen:         genC10, Check: checkC10, Classify: classifyC10, Sweep: sweepC10,
		Related: func(c *CaseC10) []*CaseC10 {
			var out []*CaseC10
			e := c.Exp
			for _, b := range []ref.Box{{H: e.V, X: e.X, Y: e.Y, V: e.H, F: e.F}, {H: e.H + 1, X: e.X, Y: e.Y, V: e.V, F: e.F}, {H: e.H, X: e.X, Y: e.Y, V: e.V + 1, F: e.F}} {
				d := b.H - b.V
				if b.Valid() && d <= 5 && d >= -5 {
					out = append(out, &CaseC10{Any: []ref.Box{b}, Exp: b})
				}
			}
			return out
		},
		SweepScopes: func(tier string) []string {
			return []string{"large expansions: v-h = 6..7 (thorough ..10: 4^10 IDs) and h-v = 6..14 (thorough ..20), each under GOMAXPROCS 1,2,3,5,6,7,12,24 as well", "all boxes at zooms (h,v)<=2 (exhaustive)", "all (h,v) in 0..35 with |h-v|<=5 x 2 extreme boxes"}
		},
	})
}
