package checks

import (
	"math/big"

	"github.com/trajectoryjp/spatial_id_go/v4/common/object"
	"github.com/trajectoryjp/spatial_id_go/v4/transform"
	"pgregory.net/rapid"

	"verif/ref"
)

type Tile struct{ H, X, Y, V, Z int64 }

type CaseC13 struct {
	Tiles []Tile
	E     int64
	Off   int64
	OutV  int64
	Reuse int64 `json:",omitempty"` // != 0: tiles are re-used TileXYZ objects filled through their setters
}

func genC13(t *rapid.T) *CaseC13 {
	c := &CaseC13{}
	c.E = genZoom(t, "E", 0, 35)
	c.OutV = genZoom(t, "outV", 0, 35)
	v := genZoom(t, "v", 0, 35)
	if rapid.Bool().Draw(t, "nearE") {
		c.E = clamp64(v+rapid.Int64Range(-3, 3).Draw(t, "dE"), 0, 35)
	}
	if rapid.Bool().Draw(t, "nearOut") {
		c.OutV = clamp64(25-(c.E-v)+rapid.Int64Range(-3, 3).Draw(t, "dOut"), 0, 35)
	}
	h := genZoom(t, "h", 0, 35)
	n := int64(1) << uint(h)
	m := int64(1) << uint(v)
	z := genIndex(t, "z", 0, m-1)
	// offset derived from an intended output index so that the first tile is usually in range
	target := genF(t, "target", c.OutV)
	// straddle: the first tile is aimed at the bottom or top cell of the output domain (so that, with the +-2 m offset
	// jitter, its range often leaves the domain: the whole call must fail), and a FINER tile inside its valid part is
	// listed before it
	straddle := rapid.IntRange(0, 7).Draw(t, "straddle") == 5
	if straddle {
		target = -(int64(1) << uint(c.OutV))
		if rapid.Bool().Draw(t, "straddleTop") {
			target = (int64(1) << uint(c.OutV)) - 1
		}
	}
	lo := ref.KeyCell(v, z, c.E, 0).Lo
	want := ref.SpatialCell(c.OutV, target).Lo
	d := new(big.Rat).Sub(lo, want)
	fl := new(big.Int).Div(d.Num(), d.Denom())
	if fl.IsInt64() && (straddle || rapid.IntRange(0, 5).Draw(t, "offKind") > 0) {
		c.Off = fl.Int64() + rapid.Int64Range(-2, 2).Draw(t, "offDelta")
	} else {
		c.Off = rapid.SampledFrom([]int64{0, 1, -1, 7, 8, -2, 1 << 24}).Draw(t, "offConst")
	}
	first := Tile{H: h, X: genIndex(t, "x", 0, n-1), Y: genIndex(t, "y", 0, n-1), V: v, Z: z}
	c.Tiles = []Tile{first}
	for i := rapid.IntRange(0, 4).Draw(t, "more"); i > 0; i-- {
		b := c.Tiles[rapid.IntRange(0, len(c.Tiles)-1).Draw(t, "base")]
		switch rapid.IntRange(0, 4).Draw(t, "rel") {
		case 0: // same tile again
		case 1: // vertical neighbour: overlapping or adjacent output ranges
			b.Z = clamp64(b.Z+rapid.Int64Range(-1, 1).Draw(t, "dz"), 0, (int64(1)<<uint(b.V))-1)
		case 2: // same footprint, other vertical zoom (nested vertical cells)
			nv := clamp64(b.V+rapid.Int64Range(-2, 2).Draw(t, "dv"), 0, 35)
			if nv >= b.V {
				b.Z = b.Z << uint(nv-b.V)
			} else {
				b.Z = b.Z >> uint(b.V-nv)
			}
			b.V = nv
		case 3: // other footprint
			b.X = genIndex(t, "ox", 0, (int64(1)<<uint(b.H))-1)
		default: // other horizontal zoom
			nh := clamp64(b.H+rapid.Int64Range(-2, 2).Draw(t, "dh"), 0, 35)
			if nh >= b.H {
				b.X, b.Y = b.X<<uint(nh-b.H), b.Y<<uint(nh-b.H)
			} else {
				b.X, b.Y = b.X>>uint(b.H-nh), b.Y>>uint(b.H-nh)
			}
			b.H = nh
		}
		c.Tiles = append(c.Tiles, b)
	}
	if straddle && v < 35 {
		d := rapid.Int64Range(1, min64(3, 35-v)).Draw(t, "straddleDepth")
		inner := first
		inner.V = v + d
		if target < 0 {
			inner.Z = ((z + 1) << uint(d)) - 1 // the top-most descendant: inside the domain when the tile straddles its bottom
		} else {
			inner.Z = z << uint(d)
		}
		c.Tiles = append([]Tile{inner}, c.Tiles...)
	}
	if rapid.IntRange(0, 24).Draw(t, "badZ") == 0 {
		i := rapid.IntRange(0, len(c.Tiles)-1).Draw(t, "badIdx")
		c.Tiles[i].Z = rapid.SampledFrom([]int64{-1, int64(1) << uint(c.Tiles[i].V)}).Draw(t, "badz")
	}
	// keep intermediates inside int64 and outputs small
	for i := 0; i < 100 && !c13Bounded(c); i++ {
		switch {
		case c.Off > 1<<40 || c.Off < -(1<<40):
			c.Off /= 1 << 10
		case c.OutV > 0:
			c.OutV--
		default:
			c.Tiles = c.Tiles[:1]
			c.Off = 0
		}
	}
	c.Reuse = genReuse(t)
	return c
}

func c13Case12(c *CaseC13, tl Tile) *CaseC12 {
	return &CaseC12{ZToKey: false, Index: tl.Z, SrcZoom: tl.V, DstZoom: c.OutV, E: c.E, Off: c.Off}
}

// c13Bounded: no overflow, every widened range has at most 512 indices and the spatial expansion stays small.
func c13Bounded(c *CaseC13) bool {
	tot := new(big.Int)
	for _, tl := range c.Tiles {
		if !c12Safe(c13Case12(c, tl)) {
			return false
		}
		lo, hi := ref.SpatialCovering(ref.KeyCell(tl.V, tl.Z, c.E, c.Off).Widen(), c.OutV)
		n := new(big.Int).Sub(hi, lo)
		n.Add(n, big.NewInt(1))
		if n.Cmp(big.NewInt(512)) > 0 {
			return false
		}
		d := tl.H - c.OutV
		if d < 0 {
			d = -2 * d
		}
		if d > 12 {
			return false
		}
		n.Lsh(n, uint(d))
		tot.Add(tot, n)
	}
	return tot.Cmp(big.NewInt(20000)) <= 0
}

type c13Ref struct {
	mustErr, mayErr bool
	exact, wide     map[ref.Box]struct{}
}

func c13Reference(c *CaseC13) c13Ref {
	r := c13Ref{exact: map[ref.Box]struct{}{}, wide: map[ref.Box]struct{}{}}
	for _, tl := range c.Tiles {
		if tl.H < 0 || tl.H > 35 || c.OutV < 0 || c.OutV > 35 {
			r.mustErr = true
			continue
		}
		if !ref.KeyIndexValid(tl.V, big.NewInt(tl.Z)) {
			r.mustErr = true
			continue
		}
		iv := ref.KeyCell(tl.V, tl.Z, c.E, c.Off)
		el, eh := ref.SpatialCovering(iv, c.OutV)
		wl, wh := ref.SpatialCovering(iv.Widen(), c.OutV)
		if !ref.SpatialIndexValid(c.OutV, el) || !ref.SpatialIndexValid(c.OutV, eh) {
			r.mustErr = true
			continue
		}
		if !ref.SpatialIndexValid(c.OutV, wl) || !ref.SpatialIndexValid(c.OutV, wh) {
			r.mayErr = true
		}
		for f := el.Int64(); f <= eh.Int64(); f++ {
			r.exact[ref.Box{H: tl.H, X: tl.X, Y: tl.Y, V: c.OutV, F: f}] = struct{}{}
		}
		for f := wl.Int64(); f <= wh.Int64(); f++ {
			r.wide[ref.Box{H: tl.H, X: tl.X, Y: tl.Y, V: c.OutV, F: f}] = struct{}{}
		}
	}
	return r
}

func classifyC13(c *CaseC13) (bool, []string) {
	var cl []string
	nt := false
	r := c13Reference(c)
	if r.mustErr {
		cl = append(cl, "range-error-expected")
		return false, cl
	}
	cl = append(cl, "in-range")
	type col struct{ h, x, y int64 }
	ranges := map[col][][2]int64{}
	for _, tl := range c.Tiles {
		lo, hi := ref.SpatialCovering(ref.KeyCell(tl.V, tl.Z, c.E, c.Off), c.OutV)
		if hi.Cmp(lo) > 0 {
			nt = true
			cl = append(cl, "range-length>=2")
		}
		k := col{tl.H, tl.X, tl.Y}
		for _, o := range ranges[k] {
			if lo.Int64() <= o[1] && o[0] <= hi.Int64() {
				nt = true
				cl = append(cl, "overlapping-tiles")
			}
		}
		ranges[k] = append(ranges[k], [2]int64{lo.Int64(), hi.Int64()})
		if tl.V > c.E {
			cl = append(cl, "sub-metre-tile")
		}
	}
	if len(c.Tiles) >= 2 {
		cl = append(cl, "list>=2")
	}
	return nt, uniq(cl)
}

func checkC13(c *CaseC13, fl *Fails) {
	if !c13Bounded(c) {
		return
	}
	var tiles []*object.TileXYZ
	for _, tl := range c.Tiles {
		reuse := c.Reuse
		if reuse != 0 {
			reuse += int64(len(tiles)) * 7919
		}
		o, err := mkTile(reuse, tl.H, tl.X, tl.Y, tl.V, tl.Z)
		if err != nil {
			fl.Add("error", "NewTileXYZ(%+v): %v", tl, err)
			return
		}
		if o.HZoom() != tl.H || o.X() != tl.X || o.Y() != tl.Y || o.VZoom() != tl.V || o.Z() != tl.Z {
			fl.Add("object-setters", "TileXYZ for %+v reports %d/%d/%d/%d/%d (reuse %d)", tl, o.HZoom(), o.X(), o.Y(), o.VZoom(), o.Z(), reuse)
		}
		tiles = append(tiles, o)
	}
	r := c13Reference(c)
	got, err := transform.ConvertTileXYZsToExtendedSpatialIDs(tiles, c.E, c.Off, c.OutV)
	desc := jsonStr(c)
	if r.mustErr {
		if err == nil {
			fl.Add("missing-error", "%s: a tile's range leaves the index range (or z does not exist) but no error; result %d ids", desc, len(got))
		} else if len(got) != 0 {
			fl.Add("partial-result", "%s: error %v together with %d ids", desc, err, len(got))
		}
		sp, err2 := transform.ConvertTileXYZsToSpatialIDs(tiles, c.E, c.Off, c.OutV)
		if err2 == nil || len(sp) != 0 {
			fl.Add("partial-result", "%s: spatial variant returns %d ids, err %v where the extended variant fails", desc, len(sp), err2)
		}
		return
	}
	if err != nil {
		if !r.mayErr {
			fl.Add("spurious-error", "%s: error %v although every metre-widened range fits", desc, err)
		}
		return
	}
	gotSet := map[ref.Box]struct{}{}
	for _, g := range got {
		b := ref.Box{H: g.HZoom(), X: g.X(), Y: g.Y(), V: g.VZoom(), F: g.Z()}
		if _, dup := gotSet[b]; dup {
			fl.Add("duplicate", "%s: %s returned twice", desc, b.Ext())
		}
		gotSet[b] = struct{}{}
		if b.V != c.OutV {
			fl.Add("vzoom", "%s: result %s does not carry the requested vertical zoom %d", desc, b.Ext(), c.OutV)
		}
	}
	for b := range r.exact {
		if _, ok := gotSet[b]; !ok {
			fl.Add("missing", "%s: %s (intersects a tile's altitude interval) missing from the result", desc, b.Ext())
			break
		}
	}
	for b := range gotSet {
		if _, ok := r.wide[b]; !ok {
			fl.Add("unexpected", "%s: unexpected %s (outside every tile's metre-widened range / footprint)", desc, b.Ext())
			break
		}
	}
	// differential against the library's own range conversion (the result is documented as exactly that range)
	libWant := map[ref.Box]struct{}{}
	for _, tl := range c.Tiles {
		lo, hi, e := transform.ConvertAltitudekeyToMinMaxZ(tl.Z, tl.V, c.OutV, c.E, c.Off)
		if e != nil {
			fl.Add("inconsistent", "%s: range conversion of tile %+v fails (%v) but the tile conversion succeeds", desc, tl, e)
			return
		}
		for f := lo; f <= hi; f++ {
			libWant[ref.Box{H: tl.H, X: tl.X, Y: tl.Y, V: c.OutV, F: f}] = struct{}{}
		}
	}
	if len(libWant) != len(gotSet) {
		fl.Add("range-mismatch", "%s: %d ids, the per-tile covering ranges give %d", desc, len(gotSet), len(libWant))
	} else {
		for b := range libWant {
			if _, ok := gotSet[b]; !ok {
				fl.Add("range-mismatch", "%s: %s is in a tile's covering range but not in the result", desc, b.Ext())
				break
			}
		}
	}
	if fl.Has() {
		return
	}
	// spatial variant = multiset union of the expansions of those IDs
	sp, err := transform.ConvertTileXYZsToSpatialIDs(tiles, c.E, c.Off, c.OutV)
	if err != nil {
		fl.Add("error", "%s: spatial variant fails: %v", desc, err)
		return
	}
	wantSp := map[string]int{}
	for b := range gotSet {
		z := max64(b.H, b.V)
		for e := range ref.ZoomSet([]ref.Box{b}, z, z) {
			wantSp[e.Spatial()]++
		}
	}
	gotSp := setOf(sp)
	for k, n := range wantSp {
		if gotSp[k] != n {
			fl.Add("spatial-expansion", "%s: spatial id %s appears %d times, expansion of the extended IDs gives %d", desc, k, gotSp[k], n)
			break
		}
	}
	for k, n := range gotSp {
		if wantSp[k] != n {
			fl.Add("spatial-expansion", "%s: spatial id %s appears %d times, expansion of the extended IDs gives %d", desc, k, n, wantSp[k])
			break
		}
	}
}

func sweepC13(tier string, emit func(*CaseC13)) {
	// one column, every order of three and four storeys out of {1, 2, 3, 10} (a stack listed bottom-up, top-down,
	// jumping down and up again)
	zs := []int64{1, 2, 3, 10}
	var perm func(cur []int64, used int)
	perm = func(cur []int64, used int) {
		if len(cur) >= 3 {
			c := &CaseC13{E: 25, Off: 0, OutV: 21}
			for _, z := range cur {
				c.Tiles = append(c.Tiles, Tile{H: 20, X: 931277, Y: 412899, V: 20, Z: z})
			}
			emit(c)
		}
		if len(cur) == 4 {
			return
		}
		for i, z := range zs {
			if used&(1<<uint(i)) == 0 {
				perm(append(append([]int64(nil), cur...), z), used|1<<uint(i))
			}
		}
	}
	perm(nil, 0)
	// a tile whose covering range leaves the output domain at its bottom / top by 1..2 metres, listed AFTER a finer tile
	// from its valid part (and alone): the whole call must fail
	for _, v := range []int64{0, 1, 2, 5} {
		for _, e := range []int64{24, 25, 26} {
			for _, outV := range []int64{3, 10, 20, 25} {
				for _, top := range []bool{false, true} {
					for delta := int64(-2); delta <= 2; delta++ {
						if tier == "quick" && (delta == 0 || (v == 5 && e != 25)) {
							continue
						}
						target := -(int64(1) << uint(outV))
						if top {
							target = (int64(1) << uint(outV)) - 1
						}
						z := int64(0)
						lo := ref.KeyCell(v, z, e, 0).Lo
						want := ref.SpatialCell(outV, target).Lo
						d := new(big.Rat).Sub(lo, want)
						fl := new(big.Int).Div(d.Num(), d.Denom())
						if !fl.IsInt64() {
							continue
						}
						first := Tile{H: 1, X: 0, Y: 1, V: v, Z: z}
						inner := first
						inner.V = v + 2
						inner.Z = 2 // strictly inside the straddling tile: it ends below its top and begins above its bottom
						if top {
							inner.Z = 1
						}
						for _, tiles := range [][]Tile{{inner, first}, {first}, {inner, first, inner}} {
							c := &CaseC13{E: e, Off: fl.Int64() + delta, OutV: outV, Tiles: tiles}
							if c13Bounded(c) {
								emit(c)
							}
						}
					}
				}
			}
		}
	}
	// "native" tiles: horizontal zoom = vertical zoom = requested output zoom, for every zoom 20..35, with the default
	// altitude reference (exponent 25, offset 0) and its neighbours - the shape a direct-emission shortcut would accept
	for z := int64(20); z <= 35; z++ {
		for _, e := range []int64{25, 24, z} {
			for _, off := range []int64{0, 1, -1} {
				if tier == "quick" && (e == 24 || off == -1) && z%3 != 0 {
					continue
				}
				n := int64(1) << uint(z)
				c := &CaseC13{E: e, Off: off, OutV: z, Tiles: []Tile{{H: z, X: n / 3, Y: n / 5, V: z, Z: 3}, {H: z, X: n / 3, Y: n / 5, V: z, Z: 4}, {H: z, X: n/3 + 1, Y: n / 5, V: z, Z: 0}}}
				if c13Bounded(c) {
					emit(c)
				}
			}
		}
	}
	// large requests: a g x g block of footprints, several storeys, listed storey by storey (so every footprint
	// reappears after all the others) - more distinct footprints than a pre-sized table holds
	for _, g := range []int64{33, 40, 70} {
		if tier == "quick" && g > 40 {
			continue
		}
		c := &CaseC13{E: 25, Off: 0, OutV: 20}
		for storey := int64(0); storey < 2; storey++ {
			for x := int64(0); x < g; x++ {
				for y := int64(0); y < g; y++ {
					c.Tiles = append(c.Tiles, Tile{H: 20, X: 931000 + x, Y: 412000 + y, V: 20, Z: 10 + 3*storey})
				}
			}
		}
		if g == 40 {
			allProcs(c)
		}
		emit(c)
	}
	// documented examples and their neighbourhood
	for _, off := range []int64{-2, 0, 7, 8, 9} {
		for _, v := range []int64{22, 23, 24, 25, 26, 27} {
			for _, outV := range []int64{22, 23, 25, 26, 27} {
				for _, z := range []int64{0, 1, 2, 3, 5} {
					c := &CaseC13{Tiles: []Tile{{H: 20, X: 85263, Y: 65423, V: v, Z: z}, {H: 20, X: 85263, Y: 65423, V: v, Z: z + 1}}, E: 25, Off: off, OutV: outV}
					if c13Bounded(c) {
						emit(c)
					}
				}
			}
		}
	}
	for v := int64(0); v <= 3; v++ {
		for z := int64(-1); z <= 1<<uint(v); z++ {
			for e := int64(0); e <= 3; e++ {
				for outV := int64(20); outV <= 27; outV++ {
					for off := int64(-2); off <= 2; off++ {
						c := &CaseC13{Tiles: []Tile{{H: 1, X: 1, Y: 0, V: v, Z: z}}, E: e, Off: off, OutV: outV}
						if c13Bounded(c) {
							emit(c)
						}
					}
				}
			}
		}
	}
}

func init() {
	register(PropT[CaseC13]{
		ID:          "C13",
		Rule:        "rapid: (base exponent, offset, output vertical zoom) built as in C12 so that the first tile lands in range (offset unaligned / constants), plus 0..4 related tiles (same tile, vertical neighbour, nested vertical cell at another zoom, other footprint, other horizontal zoom), 4% with a z outside its zoom; bounded to <=512 indices per tile and <=8192 expanded IDs. Sweep: the documented examples' neighbourhood; all tiles at v<=3 incl. z just outside x E<=3 x outV 20..27 x |off|<=2. Non-trivial: no range error expected and (two tiles of one footprint with overlapping vertical ranges, or a range of length>=2).",
		Assumptions: []string{"oracle: per tile, exact and metre-widened covering range from exact rational arithmetic (result must lie between them; equal when the tile is >= 1 m tall)", "differential: result equals the union of the library's own per-tile range conversion", "spatial variant compared as a multiset with the reference expansion of the returned extended IDs"},
		Gen:         genC13, Check: checkC13, Classify: classifyC13, Sweep: sweepC13,
		Related: func(c *CaseC13) []*CaseC13 {
			var out []*CaseC13
			add := func(m func(*CaseC13)) {
				d := *c
				d.Tiles = append([]Tile(nil), c.Tiles...)
				m(&d)
				ok := d.E >= 0 && d.E <= 35 && d.OutV >= 0 && d.OutV <= 35
				for _, tl := range d.Tiles {
					ok = ok && tl.V >= 0 && tl.V <= 35 && tl.H >= 0 && tl.H <= 35
				}
				if ok && c13Bounded(&d) {
					out = append(out, &d)
				}
			}
			add(func(d *CaseC13) { d.Off++ })
			add(func(d *CaseC13) { d.OutV-- })
			add(func(d *CaseC13) {
				for i := range d.Tiles {
					d.Tiles[i].V++
				}
			})
			return out
		},
		SweepScopes: func(tier string) []string {
			return []string{"pairs of vertically adjacent tiles, v in 22..27 x outV in {22,23,25,26,27} x off in {-2,0,7,8,9} x z in {0,1,2,3,5} (E=25)", "every tile at v<=3 (z from -1 to 2^v) x E<=3 x outV 20..27 x |off|<=2 where bounded"}
		},
	})
}
