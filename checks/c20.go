package checks

import (
	"math"
	"math/big"
	"reflect"

	"github.com/trajectoryjp/spatial_id_go/v4/common"
	"github.com/trajectoryjp/spatial_id_go/v4/common/spatial"
	"pgregory.net/rapid"
)

type V3 struct{ X, Y, Z F64 }

func (v V3) vec() spatial.Vector3 { return spatial.Vector3{X: v.X.V(), Y: v.Y.V(), Z: v.Z.V()} }
func (v V3) pt() spatial.Point3   { return spatial.Point3{X: v.X.V(), Y: v.Y.V(), Z: v.Z.V()} }

type CaseC20 struct {
	A, B       []int64  // small ints: collisions are frequent
	SA, SB     []string // strings
	Fl         []F64    // floats for Max/Min
	Target     int64
	Index      int64
	Shift      int64
	N, K       int64
	P, Q       V3 // points / vectors
	M1, M2, M3 [9]F64
	RotKind    int // 0 general, 1 parallel, 2 opposite, 3 nearly opposite
}

func genV3(t *rapid.T, label string) V3 {
	g := func(l string) F64 {
		switch rapid.IntRange(0, 3).Draw(t, l+"_k") {
		case 0:
			return F64(float64(rapid.IntRange(-3, 3).Draw(t, l)))
		default:
			return F64(rapid.Float64Range(-1e6, 1e6).Draw(t, l))
		}
	}
	return V3{g(label + "x"), g(label + "y"), g(label + "z")}
}

func norm(v V3) float64 {
	return math.Sqrt(v.X.V()*v.X.V() + v.Y.V()*v.Y.V() + v.Z.V()*v.Z.V())
}

func genC20(t *rapid.T) *CaseC20 {
	c := &CaseC20{}
	small := rapid.Int64Range(-4, 6)
	c.A = rapid.SliceOfN(small, 0, 8).Draw(t, "A")
	c.B = rapid.SliceOfN(small, 0, 8).Draw(t, "B")
	strs := rapid.SampledFrom([]string{"", "a", "b", "1/0/0/1/0", "1/0/0/1/-1", "x", "a ", "A"})
	c.SA = rapid.SliceOfN(strs, 0, 6).Draw(t, "SA")
	c.SB = rapid.SliceOfN(strs, 0, 6).Draw(t, "SB")
	for i := rapid.IntRange(0, 6).Draw(t, "nfl"); i > 0; i-- {
		c.Fl = append(c.Fl, F64(rapid.OneOf(rapid.Float64Range(-1e9, 1e9), rapid.SampledFrom([]float64{0, math.Copysign(0, -1), -1, 1, math.Inf(1), math.Inf(-1), -1e-300})).Draw(t, "fl")))
	}
	if rapid.IntRange(0, 3).Draw(t, "bigInts") == 0 {
		// large magnitudes close to each other (beyond 2^53: not representable as float64)
		base := rapid.SampledFrom([]int64{1 << 53, -(1 << 53), 1 << 62, math.MaxInt64 - 8, math.MinInt64 + 8, 1700000000000000000, -(1 << 60)}).Draw(t, "bigBase")
		c.A = nil
		for i := rapid.IntRange(1, 6).Draw(t, "nBig"); i > 0; i-- {
			c.A = append(c.A, base+rapid.Int64Range(-8, 8).Draw(t, "bigDelta"))
		}
	}
	c.Target = small.Draw(t, "target")
	// shift: |shift| < 63 and no overflow
	c.Shift = rapid.Int64Range(-62, 62).Draw(t, "shift")
	switch rapid.IntRange(0, 3).Draw(t, "idxKind") {
	case 0:
		c.Index = rapid.SampledFrom([]int64{0, 1, -1, 2, -2, 3, -3, 1 << 24, -(1 << 24), 1<<35 - 1, -(1 << 35), math.MaxInt64, math.MinInt64}).Draw(t, "index")
	case 1:
		c.Index = rapid.Int64Range(-1000, 1000).Draw(t, "index")
	default:
		c.Index = rapid.Int64().Draw(t, "index")
	}
	if c.Shift > 0 {
		// reduce the index until index * 2^shift fits
		lim := new(big.Int).Lsh(big.NewInt(1), 62)
		for new(big.Int).Abs(new(big.Int).Lsh(big.NewInt(c.Index), uint(c.Shift))).Cmp(lim) > 0 {
			c.Index /= 2
		}
	}
	c.N = rapid.Int64Range(0, 12).Draw(t, "n")
	c.K = rapid.Int64Range(0, c.N).Draw(t, "k")
	if c.N >= 11 {
		c.K = rapid.SampledFrom([]int64{0, 1, 2, c.N - 1, c.N}).Draw(t, "kbig")
	}
	c.P = genV3(t, "p")
	c.Q = genV3(t, "q")
	for norm(c.P) < 1e-6 {
		c.P.X += 1
	}
	c.RotKind = rapid.IntRange(0, 3).Draw(t, "rot")
	switch c.RotKind {
	case 1:
		s := rapid.Float64Range(0.001, 1000).Draw(t, "scale")
		c.Q = V3{F64(c.P.X.V() * s), F64(c.P.Y.V() * s), F64(c.P.Z.V() * s)}
	case 2:
		s := rapid.Float64Range(0.001, 1000).Draw(t, "scale")
		c.Q = V3{F64(-c.P.X.V() * s), F64(-c.P.Y.V() * s), F64(-c.P.Z.V() * s)}
		if rapid.Bool().Draw(t, "axisAligned") {
			ax := rapid.IntRange(0, 2).Draw(t, "ax")
			c.P, c.Q = V3{}, V3{}
			switch ax {
			case 0:
				c.P.X, c.Q.X = 2, -3
			case 1:
				c.P.Y, c.Q.Y = 2, -3
			default:
				c.P.Z, c.Q.Z = 2, -3
			}
		}
	case 3:
		e := rapid.Float64Range(1e-9, 1e-3).Draw(t, "eps")
		n := norm(c.P)
		c.Q = V3{F64(-c.P.X.V() + e*n), F64(-c.P.Y.V() - e*n), F64(-c.P.Z.V() + e*n/2)}
	}
	for norm(c.Q) < 1e-6 {
		c.Q.Y += 1
	}
	gm := func(l string) [9]F64 {
		var m [9]F64
		for i := range m {
			if rapid.Bool().Draw(t, l+"_int") {
				m[i] = F64(float64(rapid.IntRange(-5, 5).Draw(t, l)))
			} else {
				m[i] = F64(rapid.Float64Range(-1e3, 1e3).Draw(t, l))
			}
		}
		return m
	}
	c.M1, c.M2, c.M3 = gm("m1"), gm("m2"), gm("m3")
	return c
}

func classifyC20(c *CaseC20) (bool, []string) {
	var cl []string
	nt := true
	inter := false
	for _, a := range c.A {
		for _, b := range c.B {
			if a == b {
				inter = true
			}
		}
	}
	if inter {
		cl = append(cl, "slices-intersect")
	}
	if _, dup := hasDup(c.SA); dup {
		cl = append(cl, "duplicates-in-slice")
	}
	if c.Index < 0 && c.Shift < 0 {
		cl = append(cl, "negative-index-right-shift")
	}
	for _, a := range c.A {
		if a > 1<<53 || a < -(1<<53) {
			cl = append(cl, "ints-beyond-2^53")
			break
		}
	}
	if len(c.A) == 0 || len(c.Fl) == 0 {
		cl = append(cl, "empty-slice")
	}
	cl = append(cl, []string{"rot-general", "rot-parallel", "rot-opposite", "rot-nearly-opposite"}[c.RotKind])
	if c.K == 0 || c.K == c.N {
		cl = append(cl, "k=0-or-n")
	}
	return nt, cl
}

func setInt(s []int64) map[int64]struct{} {
	m := map[int64]struct{}{}
	for _, v := range s {
		m[v] = struct{}{}
	}
	return m
}

func sameSet[T comparable](got []T, want map[T]struct{}) bool {
	g := map[T]struct{}{}
	for _, v := range got {
		g[v] = struct{}{}
	}
	if len(g) != len(want) {
		return false
	}
	for k := range want {
		if _, ok := g[k]; !ok {
			return false
		}
	}
	return true
}

func noDup[T comparable](s []T) bool {
	m := map[T]struct{}{}
	for _, v := range s {
		if _, ok := m[v]; ok {
			return false
		}
		m[v] = struct{}{}
	}
	return true
}

func checkSetOps[T comparable](fl *Fails, name string, a, b []T, target T) {
	sa, sb := map[T]struct{}{}, map[T]struct{}{}
	for _, v := range a {
		sa[v] = struct{}{}
	}
	for _, v := range b {
		sb[v] = struct{}{}
	}
	un, in, df := map[T]struct{}{}, map[T]struct{}{}, map[T]struct{}{}
	for k := range sa {
		un[k] = struct{}{}
		if _, ok := sb[k]; ok {
			in[k] = struct{}{}
		} else {
			df[k] = struct{}{}
		}
	}
	for k := range sb {
		un[k] = struct{}{}
	}
	if g := common.Union(a, b); !sameSet(g, un) || !noDup(g) {
		fl.Add("union", "%s: Union(%v,%v) = %v", name, a, b, g)
	}
	if g := common.Intersect(a, b); !sameSet(g, in) {
		fl.Add("intersect", "%s: Intersect(%v,%v) = %v", name, a, b, g)
	}
	if g := common.Difference(a, b); !sameSet(g, df) {
		fl.Add("difference", "%s: Difference(%v,%v) = %v", name, a, b, g)
	}
	if g := common.Unique(a); !sameSet(g, sa) || !noDup(g) {
		fl.Add("unique", "%s: Unique(%v) = %v", name, a, g)
	}
	_, want := sa[target]
	if g := common.Include(a, target); g != want {
		fl.Add("include", "%s: Include(%v,%v) = %v", name, a, target, g)
	}
}

func mat(m [9]F64) spatial.Matrix3 {
	return spatial.NewMatrix3(m[0].V(), m[1].V(), m[2].V(), m[3].V(), m[4].V(), m[5].V(), m[6].V(), m[7].V(), m[8].V())
}

func matNorm(m spatial.Matrix3) float64 {
	s := 0.0
	for i := 0; i < 3; i++ {
		for j := 0; j < 3; j++ {
			s += m[i][j] * m[i][j]
		}
	}
	return math.Sqrt(s)
}

func checkC20(c *CaseC20, fl *Fails) {
	checkSetOps(fl, "int64", c.A, c.B, c.Target)
	tgt := ""
	if len(c.SB) > 0 {
		tgt = c.SB[0]
	}
	checkSetOps(fl, "string", c.SA, c.SB, tgt)
	// Max / Min
	mx, err := common.Max(c.A)
	mn, err2 := common.Min(c.A)
	if len(c.A) == 0 {
		if err == nil || err2 == nil {
			fl.Add("maxmin-empty", "Max/Min of an empty slice: errors %v / %v", err, err2)
		}
	} else {
		if err != nil || err2 != nil {
			fl.Add("maxmin", "Max/Min(%v): errors %v / %v", c.A, err, err2)
		}
		inMx, inMn := false, false
		for _, v := range c.A {
			if v > mx || v < mn {
				fl.Add("maxmin", "Max(%v)=%d Min=%d do not bound %d", c.A, mx, mn, v)
			}
			inMx = inMx || v == mx
			inMn = inMn || v == mn
		}
		if !inMx || !inMn {
			fl.Add("maxmin", "Max(%v)=%d / Min=%d is not an element", c.A, mx, mn)
		}
	}
	{
		// other instantiations of the generic helpers: int, int32, float32
		var is []int
		var i32 []int32
		var f32 []float32
		for _, v := range c.A {
			is = append(is, int(v))
			i32 = append(i32, int32(v%(1<<31)))
			f32 = append(f32, float32(v%(1<<20))/8)
		}
		if len(is) > 0 {
			mi, _ := common.Max(is)
			ni, _ := common.Min(is)
			m32, _ := common.Max(i32)
			n32, _ := common.Min(i32)
			mf, _ := common.Max(f32)
			nf, _ := common.Min(f32)
			for k := range is {
				if is[k] > mi || is[k] < ni || i32[k] > m32 || i32[k] < n32 || f32[k] > mf || f32[k] < nf {
					fl.Add("maxmin", "Max/Min over int/int32/float32 views of %v do not bound element %d (int %d..%d, int32 %d..%d, float32 %v..%v)", c.A, k, ni, mi, n32, m32, nf, mf)
					break
				}
			}
		}
	}
	fs := make([]float64, len(c.Fl))
	for i, f := range c.Fl {
		fs[i] = f.V()
	}
	fmx, ferr := common.Max(fs)
	fmn, ferr2 := common.Min(fs)
	if len(fs) == 0 {
		if ferr == nil || ferr2 == nil {
			fl.Add("maxmin-empty", "Max/Min of an empty float slice: errors %v / %v", ferr, ferr2)
		}
	} else {
		inMx, inMn := false, false
		for _, v := range fs {
			if v > fmx || v < fmn {
				fl.Add("maxmin", "float Max(%v)=%v Min=%v do not bound %v", fs, fmx, fmn, v)
			}
			inMx = inMx || v == fmx
			inMn = inMn || v == fmn
		}
		if !inMx || !inMn || ferr != nil || ferr2 != nil {
			fl.Add("maxmin", "float Max(%v)=%v / Min=%v is not an element (errors %v %v)", fs, fmx, fmn, ferr, ferr2)
		}
	}
	// arithmetic shift = floor(index * 2^shift)
	{
		want := new(big.Int)
		if c.Shift >= 0 {
			want.Lsh(big.NewInt(c.Index), uint(c.Shift))
		} else {
			d := new(big.Int).Lsh(big.NewInt(1), uint(-c.Shift))
			want.Div(big.NewInt(c.Index), d) // Euclidean division = floor for a positive divisor
		}
		if want.IsInt64() {
			if g := common.CalculateArithmeticShift(c.Index, c.Shift); g != want.Int64() {
				fl.Add("arithmetic-shift", "CalculateArithmeticShift(%d,%d) = %d, floor(index*2^shift) = %s", c.Index, c.Shift, g, want)
			}
		}
	}
	// combinations
	{
		var seen [][]int64
		calls := 0
		common.Combinations(c.N, c.K, func(p []int64) {
			calls++
			if len(seen) < 5000 {
				seen = append(seen, append([]int64(nil), p...))
			}
		})
		want := new(big.Int).Binomial(c.N, c.K).Int64()
		if int64(calls) != want {
			fl.Add("combinations-count", "Combinations(%d,%d) visits %d subsets, C(n,k) = %d", c.N, c.K, calls, want)
		}
		// a callback may use the slice it is handed as a prefix (append a label to it): the enumeration must not depend
		// on that. The run is cut off (sentinel panic) once it has visited more subsets than exist.
		type tooMany struct{}
		calls2, same := 0, true
		func() {
			defer func() {
				if r := recover(); r != nil {
					if _, ok := r.(tooMany); !ok {
						panic(r)
					}
				}
			}()
			common.Combinations(c.N, c.K, func(p []int64) {
				if calls2 < len(seen) && !reflect.DeepEqual(append([]int64(nil), p...), seen[calls2]) {
					same = false
				}
				calls2++
				if int64(calls2) > want+4 {
					panic(tooMany{})
				}
				row := append(p, c.N+int64(calls2%3)+1)
				_ = row
			})
		}()
		if int64(calls2) != want || !same {
			fl.Add("combinations-append", "Combinations(%d,%d) with a callback that appends to the slice it receives: %d visits (same subsets as without appending: %v), C(n,k) = %d", c.N, c.K, calls2, same, want)
		}
		for i, s := range seen {
			if int64(len(s)) != c.K {
				fl.Add("combinations-shape", "Combinations(%d,%d): subset %v has wrong size", c.N, c.K, s)
				break
			}
			ok := true
			for j := range s {
				if s[j] < 0 || s[j] >= c.N || (j > 0 && s[j] <= s[j-1]) {
					ok = false
				}
			}
			if !ok {
				fl.Add("combinations-shape", "Combinations(%d,%d): %v is not a strictly increasing subset of 0..n-1", c.N, c.K, s)
				break
			}
			if i > 0 {
				prev := seen[i-1]
				less := false
				for j := range s {
					if prev[j] != s[j] {
						less = prev[j] < s[j]
						break
					}
				}
				if !less {
					fl.Add("combinations-order", "Combinations(%d,%d): %v after %v is not strictly increasing lexicographic order", c.N, c.K, s, prev)
					break
				}
			}
		}
	}
	// line: parameter 0 / 1
	{
		p, q := c.P.pt(), c.Q.pt()
		l := spatial.NewLineFromPoints(p, q)
		if s := l.ToPoint(0); s != p || l.Start() != p {
			fl.Add("line", "line %v->%v: ToPoint(0) = %v, Start() = %v", p, q, s, l.Start())
		}
		scale := math.Abs(p.X) + math.Abs(p.Y) + math.Abs(p.Z) + math.Abs(q.X) + math.Abs(q.Y) + math.Abs(q.Z) + 1
		e := l.ToPoint(1)
		if !e.IsClose(q, 1e-12*scale) || !l.End().IsClose(q, 1e-12*scale) {
			fl.Add("line", "line %v->%v: ToPoint(1) = %v, End() = %v", p, q, e, l.End())
		}
		m := l.ToPoint(0.5)
		w := spatial.Point3{X: (p.X + q.X) / 2, Y: (p.Y + q.Y) / 2, Z: (p.Z + q.Z) / 2}
		if !m.IsClose(w, 1e-12*scale) {
			fl.Add("line", "line %v->%v: ToPoint(0.5) = %v, midpoint %v", p, q, m, w)
		}
		if d := p.DistancePoint(q); math.Abs(d-spatial.NewVectorFromPoints(p, q).Norm()) > 1e-9*scale {
			fl.Add("line", "DistancePoint %v", d)
		}
	}
	// vectors
	{
		a, b := c.P.vec(), c.Q.vec()
		s := a.Norm()*b.Norm() + 1
		if d := a.Dot(b) - b.Dot(a); d != 0 {
			fl.Add("vector", "dot not symmetric")
		}
		cr := a.Cross(b)
		if math.Abs(cr.Dot(a)) > 1e-9*s*a.Norm() || math.Abs(cr.Dot(b)) > 1e-9*s*b.Norm() {
			fl.Add("vector", "cross product %v of %v and %v is not orthogonal to them", cr, a, b)
		}
		if r := a.Add(b).Sub(b); math.Abs(r.X-a.X)+math.Abs(r.Y-a.Y)+math.Abs(r.Z-a.Z) > 1e-9*(a.L1Norm()+b.L1Norm()+1) {
			fl.Add("vector", "(a+b)-b = %v, a = %v", r, a)
		}
		if u := a.Unit(); math.Abs(u.Norm()-1) > 1e-12 {
			fl.Add("vector", "Unit(%v) has norm %v", a, u.Norm())
		}
		if sc := a.Scale(2); sc.X != 2*a.X || sc.Y != 2*a.Y || sc.Z != 2*a.Z {
			fl.Add("vector", "Scale(2) of %v = %v", a, sc)
		}
		if cs := a.Cos(b); math.Abs(cs-a.Dot(b)/(a.Norm()*b.Norm())) > 1e-9 {
			fl.Add("vector", "Cos(%v,%v) = %v", a, b, cs)
		}
	}
	// matrices
	{
		A, B, C := mat(c.M1), mat(c.M2), mat(c.M3)
		v := c.P.vec()
		l, r := A.Mul(B).Mul(C), A.Mul(B.Mul(C))
		tol := 1e-9 * (matNorm(A)*matNorm(B)*matNorm(C) + 1)
		for i := 0; i < 3; i++ {
			for j := 0; j < 3; j++ {
				if math.Abs(l[i][j]-r[i][j]) > tol {
					fl.Add("matrix-assoc", "(AB)C[%d][%d] = %v, A(BC) = %v", i, j, l[i][j], r[i][j])
				}
			}
		}
		lv, rv := A.Mul(B).MulVec(v), A.MulVec(B.MulVec(v))
		tv := 1e-9 * (matNorm(A)*matNorm(B)*v.Norm() + 1)
		if math.Abs(lv.X-rv.X) > tv || math.Abs(lv.Y-rv.Y) > tv || math.Abs(lv.Z-rv.Z) > tv {
			fl.Add("matrix-vector", "(AB)v = %v, A(Bv) = %v", lv, rv)
		}
		// direct formula for the product: row i of A times column j of B
		ab := A.Mul(B)
		for i := 0; i < 3; i++ {
			for j := 0; j < 3; j++ {
				w := A[i][0]*B[0][j] + A[i][1]*B[1][j] + A[i][2]*B[2][j]
				if math.Abs(ab[i][j]-w) > 1e-9*(matNorm(A)*matNorm(B)+1) {
					fl.Add("matrix-product", "(AB)[%d][%d] = %v, row-by-column = %v", i, j, ab[i][j], w)
				}
			}
		}
		I := spatial.NewUnitMatrix3()
		if A.Mul(I) != A || I.Mul(A) != A || I.MulVec(v) != v {
			fl.Add("matrix-identity", "unit matrix is not neutral")
		}
	}
	// rotation between two non-zero vectors
	{
		a, b := c.P.vec(), c.Q.vec()
		q := spatial.RotateBetweenVector(a, b)
		n := math.Sqrt(q.W*q.W + q.X*q.X + q.Y*q.Y + q.Z*q.Z)
		// conditioning: the formula divides by sqrt(2(1+cos)); a faithful float64 evaluation has an error of
		// about eps/(1+cos), up to ~1e-6 just outside the library's 1e-10 "opposite" switch
		cond := a.Unit().Cos(b.Unit()) + 1
		if cond < 1e-10 {
			cond = 1e-10
		}
		if !(math.Abs(n-1) <= 1e-9+2e-15/cond) {
			fl.Add("rotation-unit", "RotateBetweenVector(%v,%v) = %+v has norm %v", a, b, q, n)
		} else {
			// rotate a/|a| by q: v' = v + 2w(u x v) + 2 u x (u x v)
			u := spatial.Vector3{X: q.X, Y: q.Y, Z: q.Z}
			v := a.Unit()
			uv := u.Cross(v)
			r := v.Add(uv.Scale(2 * q.W)).Add(u.Cross(uv).Scale(2))
			e := b.Unit()
			dev := math.Sqrt((r.X-e.X)*(r.X-e.X) + (r.Y-e.Y)*(r.Y-e.Y) + (r.Z-e.Z)*(r.Z-e.Z))
			tol := 1e-7 + 5e-15/cond
			if a.Unit().Cos(b.Unit())+1 < 1e-9 {
				tol = 5e-5 // inside the library's "opposite" switch the exact direction is replaced by a half turn
			}
			if !(dev <= tol) {
				fl.Add("rotation-direction", "RotateBetweenVector(%v,%v) = %+v carries the first direction to %v, expected %v (deviation %v)", a, b, q, r, e, dev)
			}
		}
	}
}

func sweepC20(tier string, emit func(*CaseC20)) {
	unit := [9]F64{1, 0, 0, 0, 1, 0, 0, 0, 1}
	for n := int64(0); n <= 12; n++ {
		for k := int64(0); k <= n; k++ {
			emit(&CaseC20{N: n, K: k, P: V3{1, 0, 0}, Q: V3{0, 1, 0}, M1: unit, M2: unit, M3: unit, Index: -n, Shift: -k})
		}
	}
	for idx := int64(-17); idx <= 17; idx++ {
		for sh := int64(-6); sh <= 6; sh++ {
			emit(&CaseC20{Index: idx, Shift: sh, P: V3{0, 0, 1}, Q: V3{0, 0, -1}, RotKind: 2, M1: unit, M2: unit, M3: unit})
		}
	}
	axes := []V3{{1, 0, 0}, {0, 1, 0}, {0, 0, 1}, {-1, 0, 0}, {0, -1, 0}, {0, 0, -1}, {1, 1, 0}, {1, -1, 1}}
	for _, a := range axes {
		for _, b := range axes {
			k := 0
			if a.X == -b.X && a.Y == -b.Y && a.Z == -b.Z {
				k = 2
			}
			emit(&CaseC20{P: a, Q: b, RotKind: k, M1: unit, M2: [9]F64{0, 1, 0, 0, 0, 1, 1, 0, 0}, M3: [9]F64{1, 2, 3, 4, 5, 6, 7, 8, 9}})
		}
	}
}

func init() {
	register(PropT[CaseC20]{
		ID:          "C20",
		Rule:        "rapid: int64 slices over -4..6 and string slices over 8 values (collisions frequent), float slices incl. +-0/+-Inf, (index, shift) with |shift|<=62 and no overflow, 0<=k<=n<=12, two finite 3-vectors (|.|>=1e-6; general / parallel / opposite incl. axis-aligned / nearly opposite), three 3x3 matrices. Sweep: all 0<=k<=n<=12; all index in -17..17 x shift in -6..6; all pairs of 8 axis/diagonal directions. Every case is non-trivial (each exercises every helper); distinct = hash of the case.",
		Assumptions: []string{"set helpers compared with map-based set semantics (Union / Unique additionally duplicate-free)", "shift compared with big-integer floor(index*2^shift)", "float identities with relative tolerance 1e-9 (1e-12 for line end points); rotation: |q|=1 within 1e-9 + 2e-15/(1+cos) and q carries start/|start| onto end/|end| within 1e-7 + 5e-15/(1+cos) (conditioning of the half-angle formula; 5e-5 inside the library's 1e-10 'opposite' switch)"},
		Gen:         genC20, Check: checkC20, Classify: classifyC20, Sweep: sweepC20,
		SweepScopes: func(tier string) []string {
			return []string{"Combinations for all 0<=k<=n<=12 (exhaustive)", "CalculateArithmeticShift for all index in -17..17 x shift in -6..6 (exhaustive)", "RotateBetweenVector for all ordered pairs of 8 axis/diagonal directions"}
		},
	})
}
