package checks

import (
	"math"

	"github.com/trajectoryjp/spatial_id_go/v4/common/object"
	"github.com/trajectoryjp/spatial_id_go/v4/detector"
	"github.com/trajectoryjp/spatial_id_go/v4/integrate"
	"github.com/trajectoryjp/spatial_id_go/v4/shape"
	"pgregory.net/rapid"

	"verif/ref"
)

type CaseC09 struct {
	P              Pt
	HFine, HCoarse int64
	VFine, VCoarse int64
	Box            ref.Box
	DH, DV         int64 // zoom-in differences for the box relations
	// Tiling: descendants of Box at mixed zooms that tile it exactly (a complete set of descendants in which no
	// member need be the finest on both axes)
	Tiling []ref.Box `json:",omitempty"`
}

func genC09(t *rapid.T) *CaseC09 {
	c := &CaseC09{}
	c.HFine = genZoom(t, "hf", 0, 35)
	c.VFine = genZoom(t, "vf", 0, 35)
	c.HCoarse = rapid.Int64Range(0, c.HFine).Draw(t, "hc")
	c.VCoarse = rapid.Int64Range(0, c.VFine).Draw(t, "vc")
	if rapid.IntRange(0, 3).Draw(t, "near") == 0 {
		c.HCoarse = max64(0, c.HFine-rapid.Int64Range(0, 3).Draw(t, "dhc"))
		c.VCoarse = max64(0, c.VFine-rapid.Int64Range(0, 3).Draw(t, "dvc"))
	}
	c.P = genPt(t, "p", rapid.SampledFrom([]int64{c.HFine, c.HCoarse}).Draw(t, "edgeH"), rapid.SampledFrom([]int64{c.VFine, c.VCoarse}).Draw(t, "edgeV"))
	// sub-normal altitudes underflow in alt/2^(25-v) (C01 band): excluded by construction
	if a := math.Abs(c.P.Alt.V()); a != 0 && a < 1e-250 {
		c.P.Alt = F64(math.Copysign(0.5, c.P.Alt.V()))
	}
	c.Box = genBox(t, "b")
	c.DH = rapid.Int64Range(0, min64(2, 35-c.Box.H)).Draw(t, "dh")
	c.DV = rapid.Int64Range(0, min64(3, 35-c.Box.V)).Draw(t, "dv")
	if rapid.Bool().Draw(t, "tiling") {
		c.Tiling = cover(t, c.Box, 2, 2, false)
		if len(c.Tiling) > 1 {
			c.Tiling = rapid.Permutation(c.Tiling).Draw(t, "tperm")
		}
	}
	return c
}

func classifyC09(c *CaseC09) (bool, []string) {
	var cl []string
	nt := false
	if c.P.Alt.V() < 0 {
		nt = true
		cl = append(cl, "alt<0")
	}
	if c.Box.F < 0 {
		nt = true
		cl = append(cl, "f<0")
	}
	if c.HFine-c.HCoarse >= 2 && c.VFine-c.VCoarse >= 2 {
		nt = true
		cl = append(cl, "zoom-difference>=2-on-both-axes")
	}
	if len(c.Tiling) > 1 {
		cl = append(cl, "mixed-zoom-tiling")
	}
	if c.DH > 0 && c.DV > 0 {
		cl = append(cl, "descendants-on-both-axes")
	}
	if c.HFine == c.HCoarse && c.VFine == c.VCoarse {
		cl = append(cl, "equal-zooms")
	}
	return nt, cl
}

func checkC09(c *CaseC09, fl *Fails) {
	p := c.P.obj()
	if p == nil {
		fl.Add("valid-point-rejected", "NewPoint rejected %+v", c.P)
		return
	}
	at := func(h, v int64) string {
		ids, err := shape.GetExtendedSpatialIdsOnPoints([]*object.Point{p}, h, v)
		if err != nil || len(ids) != 1 {
			fl.Add("error", "point lookup at %d/%d: %v %v", h, v, ids, err)
			return ""
		}
		return ids[0]
	}
	fine := at(c.HFine, c.VFine)
	if fine == "" {
		return
	}
	for _, tgt := range [][2]int64{{c.HCoarse, c.VCoarse}, {c.HCoarse, c.VFine}, {c.HFine, c.VCoarse}} {
		coarse := at(tgt[0], tgt[1])
		if coarse == "" {
			return
		}
		out, err := integrate.ChangeExtendedSpatialIdsZoom([]string{fine}, tgt[0], tgt[1])
		if err != nil || len(out) != 1 {
			fl.Add("error", "zoom-out of %s to %d/%d: %v %v", fine, tgt[0], tgt[1], out, err)
			continue
		}
		if out[0] != coarse {
			kind := "point-nesting"
			if p.Alt() < 0 && tgt[1] < c.VFine {
				kind = "point-nesting-negative-alt"
			}
			fl.Add(kind, "point (%v,%v,%v): id at %d/%d is %s, its zoom-out to %d/%d is %s, but the point's id there is %s", p.Lon(), p.Lat(), p.Alt(), c.HFine, c.VFine, fine, tgt[0], tgt[1], out[0], coarse)
		}
		ov, err := detector.CheckExtendedSpatialIdsOverlap(fine, coarse)
		if err != nil || !ov {
			fl.Add("point-overlap", "ids %s and %s of the same point do not overlap (%v, %v)", fine, coarse, ov, err)
		}
		ov, err = detector.CheckExtendedSpatialIdsOverlap(coarse, fine)
		if err != nil || !ov {
			fl.Add("point-overlap", "ids %s and %s of the same point do not overlap (%v, %v)", coarse, fine, ov, err)
		}
	}
	// mixed pair: one voxel of the point finer horizontally, the other finer vertically - still the same point
	if mh, mv := at(c.HCoarse, c.VFine), at(c.HFine, c.VCoarse); mh != "" && mv != "" {
		for _, pr := range [][2]string{{mh, mv}, {mv, mh}} {
			ov, err := detector.CheckExtendedSpatialIdsOverlap(pr[0], pr[1])
			if err != nil || !ov {
				fl.Add("point-overlap-mixed", "ids %s and %s of the same point (%v,%v,%v) do not overlap (%v, %v)", pr[0], pr[1], p.Lon(), p.Lat(), p.Alt(), ov, err)
			}
			ova, err := detector.CheckExtendedSpatialIdsArrayOverlap([]string{pr[0], fine}, []string{pr[1]})
			if err != nil || !ova {
				fl.Add("point-overlap-mixed", "array form: ids [%s %s] and [%s] of the same point do not overlap (%v, %v)", pr[0], fine, pr[1], ova, err)
			}
		}
	}
	// zoom in, then out
	id := c.Box.Ext()
	in, err := integrate.ChangeExtendedSpatialIdsZoom([]string{id}, c.Box.H+c.DH, c.Box.V+c.DV)
	if err != nil {
		fl.Add("error", "zoom-in of %s: %v", id, err)
		return
	}
	if want := 1 << uint(2*c.DH+c.DV); len(in) != want {
		fl.Add("descendant-count", "zoom-in of %s by (%d,%d) gives %d ids, expected %d", id, c.DH, c.DV, len(in), want)
	}
	out, err := integrate.ChangeExtendedSpatialIdsZoom(in, c.Box.H, c.Box.V)
	if err != nil || len(out) != 1 || out[0] != id {
		fl.Add("zoom-in-out", "zoom-in of %s by (%d,%d) then back out gives %v (err %v)", id, c.DH, c.DV, trunc(out, 6), err)
	}
	// merging all descendants at the ID's own zooms
	mg, err := integrate.MergeExtendedSpatialIds(in, c.Box.H, c.Box.V)
	if err != nil || len(mg) != 1 || mg[0] != id {
		fl.Add("merge-descendants", "merging the %d descendants of %s at (%d,%d) gives %v (err %v)", len(in), id, c.Box.H, c.Box.V, trunc(mg, 6), err)
	}
	if len(c.Tiling) > 1 {
		mt, err := integrate.MergeExtendedSpatialIds(boxesExt(c.Tiling), c.Box.H, c.Box.V)
		if err != nil || len(mt) != 1 || mt[0] != id {
			fl.Add("merge-descendants-mixed", "merging the exact tiling %v of %s at (%d,%d) gives %v (err %v)", trunc(boxesExt(c.Tiling), 10), id, c.Box.H, c.Box.V, trunc(mt, 6), err)
		}
	}
	for i, d := range in {
		if i%17 != 0 {
			continue
		}
		ov, err := detector.CheckExtendedSpatialIdsOverlap(id, d)
		if err != nil || !ov {
			fl.Add("descendant-overlap", "%s and its descendant %s do not overlap (%v, %v)", id, d, ov, err)
		}
	}
}

func sweepC09(tier string, emit func(*CaseC09)) {
	// complete sets of descendants at mixed zooms in which no member is the finest on both axes
	for _, b := range []ref.Box{{H: 3, X: 2, Y: 5, V: 4, F: -3}, {H: 3, X: 2, Y: 5, V: 4, F: 2}, {H: 0, X: 0, Y: 0, V: 0, F: -1}, {H: 20, X: 931277, Y: 412899, V: 12, F: 0}, {H: 30, X: 5, Y: 7, V: 33, F: -1}} {
		for _, lower := range []bool{true, false} {
			tl := crossTiling(b, lower)
			emit(&CaseC09{P: Pt{F64(139.767125), F64(35.681236), F64(-0.5)}, HFine: 12, HCoarse: 10, VFine: 12, VCoarse: 9, Box: b, Tiling: tl})
			emit(&CaseC09{P: Pt{F64(139.767125), F64(35.681236), F64(-0.5)}, HFine: 12, HCoarse: 10, VFine: 12, VCoarse: 9, Box: b, Tiling: []ref.Box{tl[5], tl[3], tl[4], tl[0], tl[2], tl[1]}})
		}
	}
	// many descendants: 2^15 .. 2^17 (thorough 2^20) children zoomed back out and merged in one call
	big := [][2]int64{{5, 5}, {6, 4}, {4, 9}}
	if tier != "quick" {
		big = append(big, [2]int64{7, 6}, [2]int64{3, 13})
	}
	for i, d := range big {
		b := ref.Box{H: 10, X: 500 + int64(i), Y: 400, V: 10, F: -3 - int64(i)}
		emit(&CaseC09{P: Pt{F64(139.767125), F64(35.681236), F64(-0.5)}, HFine: 12, HCoarse: 10, VFine: 12, VCoarse: 9, Box: b, DH: d[0], DV: d[1]})
	}
	pts := []Pt{{F64(139.767125), F64(35.681236), F64(-0.5)}, {F64(-180), F64(-latLimit), F64(-altLimit)}, {F64(180), F64(latLimit), F64(math.Nextafter(altLimit, 0))},
		{F64(math.Nextafter(180, 0)), F64(0), F64(-1)}, {F64(-0.0000001), F64(-1e-10), F64(math.Nextafter(0, -1) * 1e300)}, {F64(45), F64(66.51326044311186), F64(-1024.25)}}
	for hf := int64(0); hf <= 35; hf++ {
		for hc := int64(0); hc <= hf; hc++ {
			if tier == "quick" && (hf+hc)%4 != 0 {
				continue
			}
			for i, p := range pts {
				vf := (hf*3 + int64(i)*7) % 36
				vc := (hc + int64(i)) % (vf + 1)
				emit(&CaseC09{P: p, HFine: hf, HCoarse: hc, VFine: vf, VCoarse: vc, Box: ref.Box{H: hc, X: 0, Y: (int64(1) << uint(hc)) - 1, V: vc, F: -1}, DH: min64(2, 35-hc), DV: min64(3, 35-vc)})
			}
		}
	}
	for vf := int64(0); vf <= 35; vf++ {
		for vc := int64(0); vc <= vf; vc++ {
			for _, a := range []float64{-0.5, -1, -altLimit, -3.75, 2.5} {
				emit(&CaseC09{P: Pt{F64(10), F64(10), F64(a)}, HFine: 7, HCoarse: 3, VFine: vf, VCoarse: vc, Box: ref.Box{H: 7, X: 1, Y: 2, V: vc, F: -(int64(1) << uint(vc))}, DH: 1, DV: min64(3, 35-vc)})
			}
		}
	}
}

func init() {
	register(PropT[CaseC09]{
		ID:          "C09",
		Rule:        "rapid: a valid point (C01 generator, sub-normal altitudes replaced) x ordered zoom pairs (fine>=coarse) per axis, and a valid box x zoom-in differences (<=2 horizontal, <=3 vertical). Relations checked between library calls only: id(point)@coarse == zoom-out of id(point)@fine (both axes, and each axis alone), nested ids overlap in both argument orders (also the mixed pair: one id finer horizontally, the other finer vertically), zoom-in then zoom-out returns the ID, merging all descendants returns the ID, descendants overlap their ancestor. Sweep: all ordered horizontal zoom pairs x 6 fixed points; all ordered vertical zoom pairs x 5 negative/positive altitudes. Non-trivial: alt<0 or f<0, or zoom difference>=2 on both axes.",
		Assumptions: []string{"no external reference: the relations are exact because the library scales one float fraction per axis by an exact power of two", "altitudes with 0<|alt|<1e-250 are excluded by construction (float underflow of alt/2^(25-v), see C01 band)"},
		Gen:         genC09, Check: checkC09, Classify: classifyC09, Sweep: sweepC09,
		SweepScopes: func(tier string) []string {
			if tier == "quick" {
				return []string{"a quarter of all ordered horizontal zoom pairs (fine,coarse) x 6 fixed points", "all ordered vertical zoom pairs x 5 altitudes (exhaustive over the pairs)"}
			}
			return []string{"all ordered horizontal zoom pairs (fine,coarse) in 0..35 x 6 fixed points (exhaustive over the pairs)", "all ordered vertical zoom pairs x 5 altitudes (exhaustive over the pairs)"}
		},
	})
}
