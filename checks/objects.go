package checks

import (
	"fmt"

	"github.com/trajectoryjp/spatial_id_go/v4/common/object"
	"pgregory.net/rapid"
)

// Objects reached through setters. The library's argument objects (QuadkeyAndVerticalID, TileXYZ, ExtendedSpatialID)
// have a constructor and one setter per field. A caller may re-use one object for many values, setting the fields in
// any order; such an object has to behave exactly like a freshly constructed one. `reuse` selects how the object is
// built: 0 = constructor, otherwise an object that held other values before (other zooms, larger and smaller index
// numbers) and receives the wanted values through the setters in the permutation encoded by reuse.

// genReuse draws 0 (constructor) for three cases in four.
func genReuse(t *rapid.T) int64 {
	if rapid.IntRange(0, 3).Draw(t, "reuse?") != 0 {
		return 0
	}
	return rapid.Int64Range(1, 1<<40).Draw(t, "reuse")
}

// permOf decodes k into a permutation of 0..n-1 (Lehmer code).
func permOf(k int64, n int) []int {
	items := make([]int, n)
	for i := range items {
		items[i] = i
	}
	out := make([]int, 0, n)
	for i := n; i > 0; i-- {
		j := int(k % int64(i))
		k /= int64(i)
		out = append(out, items[j])
		items = append(items[:j], items[j+1:]...)
	}
	return out
}

func mkQK(reuse, h, key, v, idx int64, mx, mn float64) *object.QuadkeyAndVerticalID {
	if reuse == 0 {
		return object.NewQuadkeyAndVerticalID(h, key, v, idx, mx, mn)
	}
	oldH := reuse%29 + 1
	q := object.NewQuadkeyAndVerticalID(oldH, (reuse/29)%(int64(1)<<uint(2*min64(oldH, 20))), (reuse/7)%36, -(reuse % 2), float64(reuse%5), -float64(reuse%3))
	for _, s := range permOf(reuse/31, 6) {
		switch s {
		case 0:
			q.SetQuadkeyZoom(h)
		case 1:
			q.SetQuadkey(key)
		case 2:
			q.SetVZoom(v)
		case 3:
			q.SetVIndex(idx)
		case 4:
			q.SetMaxHeight(mx)
		default:
			q.SetMinHeight(mn)
		}
	}
	return q
}

func qkFields(q *object.QuadkeyAndVerticalID) string {
	return fmt.Sprint(q.QuadkeyZoom(), q.Quadkey(), q.VZoom(), q.VIndex(), q.MaxHeight(), q.MinHeight())
}

func mkTile(reuse, h, x, y, v, z int64) (*object.TileXYZ, error) {
	if reuse == 0 {
		return object.NewTileXYZ(h, x, y, v, z)
	}
	// the values the object held before are valid ones of another tile; if they are refused, build the tile directly
	o, err := object.NewTileXYZ(reuse%30+1, reuse%2, (reuse/3)%2, (reuse/5)%36, reuse%2)
	if err != nil {
		return object.NewTileXYZ(h, x, y, v, z)
	}
	for _, s := range permOf(reuse/31, 5) {
		switch s {
		case 0:
			if e := o.SetHZoom(h); e != nil {
				return nil, e
			}
		case 1:
			o.SetX(x)
		case 2:
			o.SetY(y)
		case 3:
			if e := o.SetVZoom(v); e != nil {
				return nil, e
			}
		default:
			o.SetZ(z)
		}
	}
	return o, nil
}

func mkExtObj(reuse int64, id string, h, x, y, v, f int64) (*object.ExtendedSpatialID, error) {
	if reuse == 0 {
		return object.NewExtendedSpatialID(id)
	}
	o, err := object.NewExtendedSpatialID(fmt.Sprintf("%d/%d/%d/%d/%d", reuse%30+2, reuse%3, (reuse/3)%4, (reuse/5)%36, -(reuse % 2)))
	if err != nil {
		return object.NewExtendedSpatialID(id)
	}
	if reuse%4 == 1 {
		return o, o.ResetExtendedSpatialID(id)
	}
	for _, s := range permOf(reuse/31, 4) {
		switch s {
		case 0:
			o.SetZoom(h, v)
		case 1:
			o.SetX(x)
		case 2:
			o.SetY(y)
		default:
			o.SetZ(f)
		}
	}
	return o, nil
}
