package checks

import (
	"encoding/json"
	"math"
	"sort"
	"strconv"
	"strings"

	"github.com/trajectoryjp/spatial_id_go/v4/common/object"
	"pgregory.net/rapid"

	"verif/ref"
)

const latLimit = 85.0511287798

var zoomEdges = []int64{0, 1, 2, 24, 25, 26, 30, 31, 33, 34, 35}

// genZoom draws a zoom in lo..hi with extra weight on the interesting values.
func genZoom(t *rapid.T, label string, lo, hi int64) int64 {
	if rapid.IntRange(0, 2).Draw(t, label+"_kind") == 0 {
		var c []int64
		for _, z := range zoomEdges {
			if z >= lo && z <= hi {
				c = append(c, z)
			}
		}
		if len(c) > 0 {
			return rapid.SampledFrom(c).Draw(t, label)
		}
	}
	return rapid.Int64Range(lo, hi).Draw(t, label)
}

// genIndex draws an index in [lo, hi] with weight on the ends.
func genIndex(t *rapid.T, label string, lo, hi int64) int64 {
	if hi <= lo {
		return lo
	}
	switch rapid.IntRange(0, 3).Draw(t, label+"_kind") {
	case 0:
		c := []int64{lo, lo + 1, hi - 1, hi}
		return clamp64(rapid.SampledFrom(c).Draw(t, label), lo, hi)
	default:
		return rapid.Int64Range(lo, hi).Draw(t, label)
	}
}

// genF draws a vertical index at zoom v over the full documented range, at least half negative,
// with weight on -2^v, -1, 0, 2^v-1.
func genF(t *rapid.T, label string, v int64) int64 {
	m := int64(1) << uint(v)
	switch rapid.IntRange(0, 4).Draw(t, label+"_kind") {
	case 0:
		c := []int64{-m, -m + 1, -2, -1, 0, 1, m - 2, m - 1}
		return clamp64(rapid.SampledFrom(c).Draw(t, label), -m, m-1)
	case 1, 2:
		return rapid.Int64Range(-m, -1).Draw(t, label)
	default:
		return rapid.Int64Range(-m, m-1).Draw(t, label)
	}
}

func clamp64(v, lo, hi int64) int64 {
	if v < lo {
		return lo
	}
	if v > hi {
		return hi
	}
	return v
}

// genBoxAt draws a valid box at the given zooms.
func genBoxAt(t *rapid.T, label string, h, v int64) ref.Box {
	n := int64(1) << uint(h)
	return ref.Box{H: h, X: genIndex(t, label+"_x", 0, n-1), Y: genIndex(t, label+"_y", 0, n-1), V: v, F: genF(t, label+"_f", v)}
}

// genBox draws a valid box at any zooms.
func genBox(t *rapid.T, label string) ref.Box {
	return genBoxAt(t, label, genZoom(t, label+"_h", 0, 35), genZoom(t, label+"_v", 0, 35))
}

// relatives of a seed box: the interesting relations for overlap / merge / zoom.
// kind: 0 same, 1 sibling (same parent), 2 child, 3 parent-ish (ancestor), 4 face neighbour,
// 5 ancestor on horizontal axis only, 6 ancestor on vertical axis only, 7 unrelated, 8 vertical sibling across f=-1/0
// genFarShift draws a distance next to a power of two: +-(2^k - j) or +-(2^k + j), k = 4..33, j = 0..9 (coordinate
// differences at which packed / bit-field representations of relative positions overflow).
func genFarShift(t *rapid.T, label string) int64 {
	k := rapid.IntRange(4, 33).Draw(t, label+"_k")
	j := rapid.Int64Range(-9, 9).Draw(t, label+"_j")
	d := (int64(1) << uint(k)) + j
	if rapid.Bool().Draw(t, label+"_neg") {
		return -d
	}
	return d
}

// genFar returns b moved by a far shift along one axis (same zooms), or b if that leaves the grid.
func genFar(t *rapid.T, label string, b ref.Box) ref.Box {
	d := genFarShift(t, label)
	r := b
	n := int64(1) << uint(b.H)
	switch rapid.IntRange(0, 2).Draw(t, label+"_ax") {
	case 0:
		r.X = b.X + d
		if r.X < 0 || r.X >= n {
			r.X = b.X - d
		}
	case 1:
		r.Y = b.Y + d
		if r.Y < 0 || r.Y >= n {
			r.Y = b.Y - d
		}
	default:
		r.F = b.F + d
		if !r.Valid() {
			r.F = b.F - d
		}
	}
	if r.Valid() {
		return r
	}
	return b
}

// genDecimalKin returns b with one index replaced by a number whose decimal spelling extends it by a digit (14 ->
// 140..149) or drops its last digit (same zooms): neighbours in any textual treatment of IDs (prefix tests, string
// order, fixed-width fields).
func genDecimalKin(t *rapid.T, label string, b ref.Box) ref.Box {
	ext := func(v int64) int64 {
		d := rapid.Int64Range(0, 9).Draw(t, label+"_digit")
		if rapid.IntRange(0, 3).Draw(t, label+"_drop") == 0 {
			return v / 10
		}
		if v < 0 {
			return v*10 - d
		}
		return v*10 + d
	}
	r := b
	switch rapid.IntRange(0, 2).Draw(t, label+"_ax") {
	case 0:
		r.X = ext(b.X)
		if !r.Valid() {
			r.X = b.X / 10
		}
	case 1:
		r.Y = ext(b.Y)
		if !r.Valid() {
			r.Y = b.Y / 10
		}
	default:
		r.F = ext(b.F)
		if !r.Valid() {
			r.F = b.F / 10
		}
	}
	if r.Valid() {
		return r
	}
	return b
}

func genRelative(t *rapid.T, label string, b ref.Box, maxUp, maxDown int64) ref.Box {
	kind := rapid.IntRange(0, 10).Draw(t, label+"_rel")
	switch kind {
	case 10:
		return genDecimalKin(t, label, b)
	case 9:
		return genFar(t, label, b)
	case 0:
		return b
	case 1:
		r := b
		switch rapid.IntRange(0, 2).Draw(t, label+"_ax") {
		case 0:
			r.X ^= 1
		case 1:
			r.Y ^= 1
		default:
			r.F ^= 1
		}
		if r.Valid() {
			return r
		}
		return b
	case 2:
		dh := rapid.Int64Range(0, min64(maxDown, 35-b.H)).Draw(t, label+"_dh")
		dv := rapid.Int64Range(0, min64(maxDown, 35-b.V)).Draw(t, label+"_dv")
		r := ref.Box{H: b.H + dh, V: b.V + dv}
		r.X = b.X<<uint(dh) + rapid.Int64Range(0, (1<<uint(dh))-1).Draw(t, label+"_cx")
		r.Y = b.Y<<uint(dh) + rapid.Int64Range(0, (1<<uint(dh))-1).Draw(t, label+"_cy")
		r.F = b.F<<uint(dv) + rapid.Int64Range(0, (1<<uint(dv))-1).Draw(t, label+"_cf")
		return r
	case 3:
		dh := rapid.Int64Range(0, min64(maxUp, b.H)).Draw(t, label+"_dh")
		dv := rapid.Int64Range(0, min64(maxUp, b.V)).Draw(t, label+"_dv")
		return ref.Box{H: b.H - dh, X: ref.Ancestor(b.X, dh), Y: ref.Ancestor(b.Y, dh), V: b.V - dv, F: ref.Ancestor(b.F, dv)}
	case 4:
		d := [][3]int64{{1, 0, 0}, {-1, 0, 0}, {0, 1, 0}, {0, -1, 0}, {0, 0, 1}, {0, 0, -1}}[rapid.IntRange(0, 5).Draw(t, label+"_dir")]
		r := ref.Shift(b, d[0], d[1], d[2])
		if r.Valid() {
			return r
		}
		return b
	case 5:
		dh := rapid.Int64Range(0, min64(maxUp, b.H)).Draw(t, label+"_dh")
		dv := rapid.Int64Range(0, min64(maxDown, 35-b.V)).Draw(t, label+"_dv")
		r := ref.Box{H: b.H - dh, X: ref.Ancestor(b.X, dh), Y: ref.Ancestor(b.Y, dh), V: b.V + dv}
		r.F = b.F<<uint(dv) + rapid.Int64Range(0, (1<<uint(dv))-1).Draw(t, label+"_cf")
		return r
	case 6:
		dh := rapid.Int64Range(0, min64(maxDown, 35-b.H)).Draw(t, label+"_dh")
		dv := rapid.Int64Range(0, min64(maxUp, b.V)).Draw(t, label+"_dv")
		r := ref.Box{H: b.H + dh, V: b.V - dv, F: ref.Ancestor(b.F, dv)}
		r.X = b.X<<uint(dh) + rapid.Int64Range(0, (1<<uint(dh))-1).Draw(t, label+"_cx")
		r.Y = b.Y<<uint(dh) + rapid.Int64Range(0, (1<<uint(dh))-1).Draw(t, label+"_cy")
		return r
	case 7:
		h := clamp64(b.H+rapid.Int64Range(-maxUp, maxDown).Draw(t, label+"_uh"), 0, 35)
		v := clamp64(b.V+rapid.Int64Range(-maxUp, maxDown).Draw(t, label+"_uv"), 0, 35)
		return genBoxAt(t, label+"_u", h, v)
	default:
		// the pair of cells around ground level at a (possibly different) vertical zoom
		dv := rapid.Int64Range(-min64(maxUp, b.V), min64(maxDown, 35-b.V)).Draw(t, label+"_gv")
		r := b
		r.V = b.V + dv
		r.F = rapid.SampledFrom([]int64{-1, 0, -2, 1}).Draw(t, label+"_gf")
		if !r.Valid() {
			r.F = -1
		}
		return r
	}
}

func min64(a, b int64) int64 {
	if a < b {
		return a
	}
	return b
}

func max64(a, b int64) int64 {
	if a > b {
		return a
	}
	return b
}

func absf(x float64) float64 { return math.Abs(x) }

// ---------------------------------------------------------------------------------------------
// points

// Pt is a JSON-exact point.
type Pt struct {
	Lon, Lat, Alt F64
}

func (p Pt) obj() *object.Point {
	o, err := object.NewPoint(p.Lon.V(), p.Lat.V(), p.Alt.V())
	if err != nil {
		return nil
	}
	return o
}

func ulpStep(t *rapid.T, label string, v float64) float64 {
	switch rapid.IntRange(0, 4).Draw(t, label+"_ulp") {
	case 0:
		return math.Nextafter(v, math.Inf(1))
	case 1:
		return math.Nextafter(v, math.Inf(-1))
	case 2:
		return math.Nextafter(math.Nextafter(v, math.Inf(1)), math.Inf(1))
	default:
		return v
	}
}

// genLon draws a valid longitude; hh is the zoom whose tile boundaries are targeted.
func genLon(t *rapid.T, label string, hh int64) float64 {
	var v float64
	switch rapid.IntRange(0, 3).Draw(t, label+"_kind") {
	case 0:
		v = rapid.SampledFrom([]float64{-180, 180, math.Nextafter(180, 0), math.Nextafter(-180, 0), 0, math.Copysign(0, -1),
			5e-324, -5e-324, 90, -90, 179.99999999999, -179.99999999999}).Draw(t, label)
	case 1:
		n := int64(1) << uint(hh)
		k := genIndex(t, label+"_k", 0, n)
		v = ulpStep(t, label, ref.ColWestLon(k, hh))
	default:
		v = rapid.Float64Range(-180, 180).Draw(t, label)
	}
	if v > 180 {
		v = 180
	}
	if v < -180 {
		v = -180
	}
	return v
}

// genLat draws a valid latitude (|lat| <= 85.0511287798 after the 1e-10 truncation).
func genLat(t *rapid.T, label string, hh int64) float64 {
	var v float64
	switch rapid.IntRange(0, 3).Draw(t, label+"_kind") {
	case 0:
		v = rapid.SampledFrom([]float64{latLimit, -latLimit, 0, math.Copysign(0, -1), 1e-10, -1e-10, 85.05, -85.05,
			latLimit - 1e-10, -latLimit + 1e-10, 66.51326044311186, -66.51326044311186, 5e-324}).Draw(t, label)
	case 1:
		n := int64(1) << uint(hh)
		k := genIndex(t, label+"_k", 0, n)
		v = ref.RowNorthLat(k, hh)
		v += float64(rapid.IntRange(-2, 2).Draw(t, label+"_d")) * 1e-10
	default:
		v = rapid.Float64Range(-latLimit, latLimit).Draw(t, label)
	}
	if v > latLimit {
		v = latLimit
	}
	if v < -latLimit {
		v = -latLimit
	}
	return v
}

const altLimit = 33554432.0 // 2^25

// genAlt draws an altitude in [-2^25, 2^25]; vv is the zoom whose cell boundaries are targeted.
func genAlt(t *rapid.T, label string, vv int64) float64 {
	var v float64
	switch rapid.IntRange(0, 4).Draw(t, label+"_kind") {
	case 0:
		v = rapid.SampledFrom([]float64{0, math.Copysign(0, -1), altLimit, -altLimit, math.Nextafter(altLimit, 0), math.Nextafter(-altLimit, 0),
			5e-324, -5e-324, 1e-300, -1e-300, 0.5, -0.5, 1, -1, 16777216, -16777216}).Draw(t, label)
	case 1:
		m := int64(1) << uint(vv)
		k := genF(t, label+"_k", vv)
		if rapid.Bool().Draw(t, label+"_top") {
			k = m
		}
		v = ulpStep(t, label, float64(k)*math.Ldexp(1, int(25-vv)))
	case 2:
		v = -rapid.Float64Range(0, altLimit).Draw(t, label)
	default:
		v = rapid.Float64Range(-altLimit, altLimit).Draw(t, label)
	}
	if v > altLimit {
		v = altLimit
	}
	if v < -altLimit {
		v = -altLimit
	}
	return v
}

func genPt(t *rapid.T, label string, hh, vv int64) Pt {
	return Pt{F64(genLon(t, label+"_lon", hh)), F64(genLat(t, label+"_lat", hh)), F64(genAlt(t, label+"_alt", vv))}
}

// ---------------------------------------------------------------------------------------------
// small set helpers

func setOf(ss []string) map[string]int {
	m := make(map[string]int, len(ss))
	for _, s := range ss {
		m[s]++
	}
	return m
}

func hasDup(ss []string) (string, bool) {
	m := make(map[string]struct{}, len(ss))
	for _, s := range ss {
		if _, ok := m[s]; ok {
			return s, true
		}
		m[s] = struct{}{}
	}
	return "", false
}

func sortedCopy(ss []string) []string {
	c := append([]string(nil), ss...)
	sort.Strings(c)
	return c
}

// diffSets describes the difference between two string sets briefly.
func diffSets(got []string, want map[string]struct{}) (missing, extra []string) {
	g := map[string]struct{}{}
	for _, s := range got {
		g[s] = struct{}{}
		if _, ok := want[s]; !ok && len(extra) < 5 {
			extra = append(extra, s)
		}
	}
	for s := range want {
		if _, ok := g[s]; !ok && len(missing) < 5 {
			missing = append(missing, s)
		}
	}
	sort.Strings(missing)
	sort.Strings(extra)
	return
}

func extSet(bs map[ref.Box]struct{}) map[string]struct{} {
	m := make(map[string]struct{}, len(bs))
	for b := range bs {
		m[b.Ext()] = struct{}{}
	}
	return m
}

func boxesExt(bs []ref.Box) []string {
	out := make([]string, len(bs))
	for i, b := range bs {
		out[i] = b.Ext()
	}
	return out
}

func trunc(ss []string, n int) []string {
	if len(ss) > n {
		return ss[:n]
	}
	return ss
}

// spellInt renders an integer in one of the spellings strconv.ParseInt accepts: canonical, with a leading '+',
// with leading zeros, or "-0" for zero. sel selects the variant (0..4 canonical).
func spellInt(v int64, sel uint64) string {
	c := strconv.FormatInt(v, 10)
	switch sel % 8 {
	case 5:
		if v >= 0 {
			return "+" + c
		}
	case 6:
		if v >= 0 {
			return "00" + c
		}
		return "-0" + c[1:]
	case 7:
		if v == 0 {
			return "-0"
		}
	}
	return c
}

// spellMix is a small deterministic mixer (the spelling of field j of entry i under seed s).
func spellMix(s int64, i, j int) uint64 {
	if s == 0 {
		return 0
	}
	x := uint64(s)*0x9E3779B97F4A7C15 + uint64(i)*0xBF58476D1CE4E5B9 + uint64(j)*0x94D049BB133111EB
	x ^= x >> 31
	x *= 0xD6E8FEB86659FD93
	x ^= x >> 29
	return x
}

// spelledExt renders boxes in the extended notation with (possibly non-canonical) integer spellings.
func spelledExt(bs []ref.Box, seed int64) []string {
	out := make([]string, len(bs))
	for i, b := range bs {
		f := []int64{b.H, b.X, b.Y, b.V, b.F}
		p := make([]string, 5)
		for j := range f {
			p[j] = spellInt(f[j], spellMix(seed, i, j))
		}
		out[i] = strings.Join(p, "/")
	}
	return out
}

// spelledSpatial renders boxes (H == V) in the z/f/x/y notation with (possibly non-canonical) spellings.
func spelledSpatial(bs []ref.Box, seed int64) []string {
	out := make([]string, len(bs))
	for i, b := range bs {
		f := []int64{b.H, b.F, b.X, b.Y}
		p := make([]string, 4)
		for j := range f {
			p[j] = spellInt(f[j], spellMix(seed, i, j))
		}
		out[i] = strings.Join(p, "/")
	}
	return out
}

// genSpell draws a spelling seed: 0 (canonical) in 7 of 8 cases.
func genSpell(t *rapid.T) int64 {
	if rapid.IntRange(0, 7).Draw(t, "spelled") != 0 {
		return 0
	}
	return rapid.Int64Range(1, 1<<40).Draw(t, "spell")
}

// rowBoxes returns n pairwise different boxes of one zoom pair (a block of footprints, vertical index varying slowly).
func rowBoxes(n int, h, v int64) []ref.Box {
	out := make([]ref.Box, 0, n)
	w := int64(1) << uint(h)
	for i := 0; len(out) < n; i++ {
		x, y := int64(i)%w, (int64(i)/w)%w
		f := int64(i)/(w*w) - 2
		out = append(out, ref.Box{H: h, X: x, Y: y, V: v, F: f})
	}
	return out
}

// roundSizes are list lengths at and next to powers of two (block / batch / pre-sized table boundaries).
var roundSizes = []int{255, 256, 257, 1023, 1024, 1025, 2048, 4096, 4097}

func jsonStr(v any) string {
	b, _ := json.Marshal(v)
	if len(b) > 400 {
		return string(b[:400]) + "..."
	}
	return string(b)
}
