package checks

import (
	"math/big"

	"github.com/trajectoryjp/spatial_id_go/v4/transform"
	"pgregory.net/rapid"

	"verif/ref"
)

type CaseC12 struct {
	ZToKey  bool  // direction: spatial index -> key range, else key -> spatial index range
	Index   int64 // source index (f or key)
	SrcZoom int64
	DstZoom int64
	E       int64 // base exponent: zoom at which a key cell is 1 m tall
	Off     int64 // base offset: key index (at zoom E) of 0 m
}

func bigAbs(v int64) *big.Int { return new(big.Int).Abs(big.NewInt(v)) }

// c12Safe reports whether every intermediate of both library implementations stays below 2^62.
func c12Safe(c *CaseC12) bool {
	lim := new(big.Int).Lsh(big.NewInt(1), 62)
	pos := func(v int64) uint {
		if v > 0 {
			return uint(v)
		}
		return 0
	}
	idx := new(big.Int).Add(bigAbs(c.Index), big.NewInt(2))
	off := new(big.Int).Add(bigAbs(c.Off), big.NewInt(2))
	var s1, s2, s3 uint
	if c.ZToKey {
		s1 = pos(25 - c.SrcZoom)  // to metres
		s2 = pos(c.DstZoom - c.E) // to keys
		s3 = pos(c.SrcZoom - 25)  // offset expressed in voxel heights
	} else {
		s1 = pos(c.E - c.SrcZoom)
		s2 = pos(c.DstZoom - 25)
		s3 = 0
	}
	a := new(big.Int).Lsh(idx, s1)
	a.Add(a, new(big.Int).Lsh(off, s3))
	a.Lsh(a, s2+s3)
	b := new(big.Int).Lsh(off, s2+s3)
	a.Add(a, b)
	return a.Cmp(lim) < 0
}

func genC12(t *rapid.T) *CaseC12 {
	c := &CaseC12{ZToKey: rapid.Bool().Draw(t, "ztokey")}
	c.SrcZoom = genZoom(t, "src", 0, 35)
	c.DstZoom = genZoom(t, "dst", 0, 35)
	c.E = genZoom(t, "E", 0, 35)
	if rapid.IntRange(0, 2).Draw(t, "nearE") == 0 {
		c.E = clamp64(c.DstZoom+rapid.Int64Range(-3, 3).Draw(t, "dE"), 0, 35)
		if !c.ZToKey {
			c.E = clamp64(c.SrcZoom+rapid.Int64Range(-3, 3).Draw(t, "dE2"), 0, 35)
		}
	}
	// source index incl. the ends of its range and, rarely, just outside it
	if c.ZToKey {
		c.Index = genF(t, "f", c.SrcZoom)
	} else {
		c.Index = genIndex(t, "k", 0, (int64(1)<<uint(c.SrcZoom))-1)
	}
	if rapid.IntRange(0, 19).Draw(t, "invalidSrc") == 0 {
		m := int64(1) << uint(c.SrcZoom)
		if c.ZToKey {
			c.Index = rapid.SampledFrom([]int64{m, -m - 1, m + 1, 2 * m}).Draw(t, "badf")
		} else {
			c.Index = rapid.SampledFrom([]int64{m, -1, m + 1, -m}).Draw(t, "badk")
		}
	}
	// offset: derived from an intended target position so that most cases are in range
	var lo *big.Rat
	var dstLo, dstHi int64
	if c.ZToKey {
		lo = ref.SpatialCell(c.SrcZoom, c.Index).Lo
		dstLo, dstHi = 0, (int64(1)<<uint(c.DstZoom))-1
	} else {
		lo = ref.KeyCell(c.SrcZoom, c.Index, c.E, 0).Lo
		dstLo, dstHi = -(int64(1) << uint(c.DstZoom)), (int64(1)<<uint(c.DstZoom))-1
	}
	target := genIndex(t, "target", dstLo, dstHi)
	var want *big.Rat // altitude at which the target cell starts (without offset)
	if c.ZToKey {
		want = ref.KeyCell(c.DstZoom, target, c.E, 0).Lo
	} else {
		want = ref.SpatialCell(c.DstZoom, target).Lo
	}
	// ZToKey: key cell t starts at want - off and should be near lo  => off = want - lo
	// KeyToZ: key source starts at lo - off and should be near want  => off = lo - want
	d := new(big.Rat)
	if c.ZToKey {
		d.Sub(want, lo)
	} else {
		d.Sub(lo, want)
	}
	fl := new(big.Int).Div(d.Num(), d.Denom())
	switch rapid.IntRange(0, 5).Draw(t, "offKind") {
	case 0:
		c.Off = 0
	case 1:
		c.Off = rapid.SampledFrom([]int64{1, -1, 2, 7, -7, 47, 1 << 10, -(1 << 10), 1 << 24, -(1 << 24), 1<<24 + 1, 12345}).Draw(t, "offConst")
	default:
		if fl.IsInt64() {
			c.Off = fl.Int64() + rapid.Int64Range(-3, 3).Draw(t, "offDelta")
			if rapid.Bool().Draw(t, "odd") {
				c.Off |= 1
			}
		}
	}
	// keep every intermediate inside int64 (overflow is outside the property)
	for i := 0; !c12Safe(c) && i < 80; i++ {
		switch {
		case c.Off != 0 && i%2 == 0:
			c.Off /= 1 << 8
		case c.DstZoom > 0:
			c.DstZoom--
		default:
			c.Index /= 2
		}
	}
	return c
}

type c12Ref struct {
	srcValid            bool
	exactLo, exactHi    *big.Int
	wideLo, wideHi      *big.Int
	exactFits, wideFits bool
	srcAtLeastOneMetre  bool
	offAligned          bool
}

func c12Reference(c *CaseC12) c12Ref {
	var r c12Ref
	idx := big.NewInt(c.Index)
	if c.ZToKey {
		r.srcValid = ref.SpatialIndexValid(c.SrcZoom, idx)
		iv := ref.SpatialCell(c.SrcZoom, c.Index)
		r.exactLo, r.exactHi = ref.KeysCovering(iv, c.DstZoom, c.E, c.Off)
		r.wideLo, r.wideHi = ref.KeysCovering(iv.Widen(), c.DstZoom, c.E, c.Off)
		r.exactFits = ref.KeyIndexValid(c.DstZoom, r.exactLo) && ref.KeyIndexValid(c.DstZoom, r.exactHi)
		r.wideFits = ref.KeyIndexValid(c.DstZoom, r.wideLo) && ref.KeyIndexValid(c.DstZoom, r.wideHi)
		r.srcAtLeastOneMetre = c.SrcZoom <= 25
		if c.E > c.DstZoom {
			r.offAligned = c.Off%(int64(1)<<uint(c.E-c.DstZoom)) == 0
		} else {
			r.offAligned = true
		}
	} else {
		r.srcValid = ref.KeyIndexValid(c.SrcZoom, idx)
		iv := ref.KeyCell(c.SrcZoom, c.Index, c.E, c.Off)
		r.exactLo, r.exactHi = ref.SpatialCovering(iv, c.DstZoom)
		r.wideLo, r.wideHi = ref.SpatialCovering(iv.Widen(), c.DstZoom)
		r.exactFits = ref.SpatialIndexValid(c.DstZoom, r.exactLo) && ref.SpatialIndexValid(c.DstZoom, r.exactHi)
		r.wideFits = ref.SpatialIndexValid(c.DstZoom, r.wideLo) && ref.SpatialIndexValid(c.DstZoom, r.wideHi)
		r.srcAtLeastOneMetre = c.SrcZoom <= c.E
		if c.DstZoom < 25 {
			r.offAligned = c.Off%(int64(1)<<uint(25-c.DstZoom)) == 0
		} else {
			r.offAligned = true
		}
	}
	return r
}

func classifyC12(c *CaseC12) (bool, []string) {
	r := c12Reference(c)
	var cl []string
	nt := false
	if c.ZToKey {
		cl = append(cl, "dir=ZToKey")
	} else {
		cl = append(cl, "dir=KeyToZ")
	}
	if !r.srcValid {
		cl = append(cl, "invalid-source-index")
		return false, cl
	}
	if r.exactFits {
		cl = append(cl, "in-range")
		if !r.offAligned {
			nt = true
			cl = append(cl, "in-range,offset-unaligned")
		}
		if c.SrcZoom > 25 || c.DstZoom > 25 {
			nt = true
			cl = append(cl, "in-range,zoom>25")
		}
		if r.exactHi.Cmp(r.exactLo) > 0 {
			cl = append(cl, "range-length>=2")
		}
		if !r.wideFits {
			cl = append(cl, "exact-fits-widened-does-not")
		}
	} else {
		cl = append(cl, "out-of-range")
	}
	m := int64(1) << uint(c.SrcZoom)
	if c.Index == m-1 || (c.ZToKey && c.Index == -m) || (!c.ZToKey && c.Index == 0) {
		if r.exactFits {
			nt = true
		}
		cl = append(cl, "top/bottom-source-index")
	}
	if !r.srcAtLeastOneMetre {
		cl = append(cl, "sub-metre-source")
	}
	return nt, uniq(cl)
}

func c12Call(c *CaseC12) (int64, int64, error) {
	if c.ZToKey {
		return transform.ConvertZToMinMaxAltitudekey(c.Index, c.SrcZoom, c.DstZoom, c.E, c.Off)
	}
	return transform.ConvertAltitudekeyToMinMaxZ(c.Index, c.SrcZoom, c.DstZoom, c.E, c.Off)
}

func checkC12(c *CaseC12, fl *Fails) {
	if !c12Safe(c) {
		return
	}
	r := c12Reference(c)
	dir := "KeyToZ"
	if c.ZToKey {
		dir = "ZToKey"
	}
	mn, mx, err := c12Call(c)
	desc := func() string {
		return jsonStr(c) + " -> (" + big.NewInt(mn).String() + "," + big.NewInt(mx).String() + ") exact [" + r.exactLo.String() + "," + r.exactHi.String() + "] widened [" + r.wideLo.String() + "," + r.wideHi.String() + "]"
	}
	if err != nil {
		if r.srcValid && r.wideFits {
			fl.Add("spurious-error-"+dir, "%s: error %v although the source index exists and even the metre-widened range fits", desc(), err)
		}
		return
	}
	if !r.srcValid {
		fl.Add("missing-error-"+dir, "%s: source index does not exist at its zoom but no error", desc())
		return
	}
	if !r.exactFits {
		fl.Add("missing-error-"+dir, "%s: exact covering range leaves the target index range but no error", desc())
		return
	}
	bmn, bmx := big.NewInt(mn), big.NewInt(mx)
	if mn > mx {
		fl.Add("min>max-"+dir, "%s: min > max", desc())
	}
	if bmn.Cmp(r.exactLo) > 0 || bmx.Cmp(r.exactHi) < 0 {
		fl.Add("loses-altitude-"+dir, "%s: returned range does not contain the exact covering range", desc())
	}
	if bmn.Cmp(r.wideLo) < 0 || bmx.Cmp(r.wideHi) > 0 {
		fl.Add("beyond-widened-"+dir, "%s: returned range exceeds the metre-widened covering range", desc())
	}
	if fl.Has() {
		return
	}
	// duality in the exact regime: both cell sizes >= 1 m
	exactRegime := false
	if c.ZToKey {
		exactRegime = c.SrcZoom <= 25 && c.DstZoom <= c.E
	} else {
		exactRegime = c.SrcZoom <= c.E && c.DstZoom <= 25
	}
	if !exactRegime {
		return
	}
	back := func(i int64) (int64, int64, error) {
		if c.ZToKey {
			return transform.ConvertAltitudekeyToMinMaxZ(i, c.DstZoom, c.SrcZoom, c.E, c.Off)
		}
		return transform.ConvertZToMinMaxAltitudekey(i, c.DstZoom, c.SrcZoom, c.E, c.Off)
	}
	inside := []int64{mn, mx, mn + (mx-mn)/2}
	for _, i := range inside {
		bl, bh, berr := back(i)
		if berr != nil {
			// the reverse direction may legitimately fail only if its own covering range leaves the index range
			continue
		}
		if c.Index < bl || c.Index > bh {
			fl.Add("duality", "%s: %d is in the range of source %d, but the reverse conversion of %d gives [%d,%d] which does not contain %d", desc(), i, c.Index, i, bl, bh, c.Index)
		}
	}
	for _, i := range []int64{mn - 1, mx + 1} {
		var valid bool
		if c.ZToKey {
			valid = ref.KeyIndexValid(c.DstZoom, big.NewInt(i))
		} else {
			valid = ref.SpatialIndexValid(c.DstZoom, big.NewInt(i))
		}
		if !valid {
			continue
		}
		bl, bh, berr := back(i)
		if berr != nil {
			continue
		}
		if c.Index >= bl && c.Index <= bh {
			fl.Add("duality", "%s: %d is outside the range of source %d, but the reverse conversion of %d gives [%d,%d] which contains %d", desc(), i, c.Index, i, bl, bh, c.Index)
		}
	}
}

func sweepC12(tier string, emit func(*CaseC12)) {
	// the offsets in actual use: 2^24 (the library's own altitude offset), 2^25, 2^23 and their neighbours, negated
	// too, against every zoom pair of {0,1,2,24,25,26} and the base exponents around 25
	for _, dir := range []bool{true, false} {
		for _, sz := range []int64{0, 1, 2, 24, 25, 26} {
			for _, dz := range []int64{0, 1, 2, 24, 25, 26} {
				for _, e := range []int64{24, 25, 26} {
					for _, k := range []uint{23, 24, 25, 26} {
						for _, d := range []int64{-1, 0, 1} {
							for _, sign := range []int64{1, -1} {
								off := sign * ((int64(1) << k) + d)
								m := int64(1) << uint(sz)
								idxs := []int64{-1, 0, 1, m - 1, m}
								if dir {
									idxs = append(idxs, -m, -m-1)
								}
								for _, i := range idxs {
									c := &CaseC12{ZToKey: dir, Index: i, SrcZoom: sz, DstZoom: dz, E: e, Off: off}
									if c12Safe(c) {
										emit(c)
									}
								}
							}
						}
					}
				}
			}
		}
	}
	zooms := []int64{0, 1, 2, 3, 24, 25, 26, 27}
	es := []int64{0, 24, 25, 26}
	maxOff := int64(5)
	if tier == "quick" {
		maxOff = 3
	}
	for _, dir := range []bool{true, false} {
		for _, sz := range zooms {
			var idxs []int64
			m := int64(1) << uint(sz)
			if sz <= 3 {
				lo := -m
				if !dir {
					lo = 0
				}
				for i := lo - 1; i <= m; i++ {
					idxs = append(idxs, i)
				}
			} else if dir {
				idxs = []int64{-m, -m + 1, -2, -1, 0, 1, 2, 3, m - 2, m - 1, m}
			} else {
				idxs = []int64{-1, 0, 1, 2, 3, 5, m - 2, m - 1, m}
			}
			for _, dz := range zooms {
				for _, e := range es {
					for off := -maxOff; off <= maxOff; off++ {
						for _, i := range idxs {
							c := &CaseC12{ZToKey: dir, Index: i, SrcZoom: sz, DstZoom: dz, E: e, Off: off}
							if c12Safe(c) {
								emit(c)
							}
						}
					}
				}
			}
		}
	}
}

func init() {
	register(PropT[CaseC12]{
		ID:   "C12",
		Rule: "rapid: direction x (source zoom, target zoom, base exponent) in 0..35^3 x source index (edge-weighted, both signs, 5% just outside its range) x base offset derived from an intended target position (+-3, optionally made odd) or a constant (0, +-1, +-2^k, odd) so that most cases land in range; tuples whose intermediates would exceed 2^62 are reduced by construction. Sweep: all tuples with zooms in {0..3,24..27}, E in {0,24,25,26}, |off|<=5, every index at zooms<=3 and edge indices above. Non-trivial: exact covering range fits the target index range and (offset not aligned to the down-shift, or a zoom > 25, or the source is the top/bottom index).",
		Assumptions: []string{
			"oracle: exact rational interval arithmetic (math/big) for the exact and the metre-widened covering range",
			"int64 overflow of intermediates is outside the property: such tuples are reduced before the library is called",
			"when the exact range fits but the widened one does not, both an error and an in-band range are accepted (the property allows either)",
		},
		Gen: genC12, Check: checkC12, Classify: classifyC12, Sweep: sweepC12,
		Related: func(c *CaseC12) []*CaseC12 {
			var out []*CaseC12
			add := func(m func(*CaseC12)) {
				d := *c
				m(&d)
				if d.SrcZoom >= 0 && d.SrcZoom <= 35 && d.DstZoom >= 0 && d.DstZoom <= 35 && d.E >= 0 && d.E <= 35 && c12Safe(&d) {
					out = append(out, &d)
				}
			}
			add(func(d *CaseC12) { d.Index++ })
			add(func(d *CaseC12) { d.SrcZoom++ })
			add(func(d *CaseC12) { d.DstZoom-- })
			add(func(d *CaseC12) { d.E++ })
			add(func(d *CaseC12) { d.Off-- })
			add(func(d *CaseC12) { d.ZToKey = !d.ZToKey })
			return out
		},
		SweepScopes: func(tier string) []string {
			if tier == "quick" {
				return []string{"both directions x zooms {0..3,24..27}^2 x E in {0,24,25,26} x |off|<=3 x (all indices incl. one beyond each end at zooms<=3, edge indices at 24..27) (exhaustive)"}
			}
			return []string{"both directions x zooms {0..3,24..27}^2 x E in {0,24,25,26} x |off|<=5 x (all indices incl. one beyond each end at zooms<=3, edge indices at 24..27) (exhaustive)"}
		},
	})
}
