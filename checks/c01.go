package checks

import (
	"math"

	"github.com/trajectoryjp/spatial_id_go/v4/common/enum"
	"github.com/trajectoryjp/spatial_id_go/v4/common/object"
	"github.com/trajectoryjp/spatial_id_go/v4/shape"
	"pgregory.net/rapid"

	"verif/ref"
)

// tolerance bands (DESIGN.md section 2)
const (
	lonBandDeg   = 0x1p-42   // degrees: lon+180 is rounded to the float grid of [128,512)
	latBandFrac  = 0x1p-45   // Mercator fraction
	altBandM     = 0x1p-1000 // metres: alt / 2^(25-v) underflows for sub-normal altitudes only
	latTruncBand = 1e-10 + 2e-13
)

type CaseC01 struct {
	H, V int64
	Pts  []Pt
}

func genC01(t *rapid.T) *CaseC01 {
	c := &CaseC01{H: genZoom(t, "h", 0, 35), V: genZoom(t, "v", 0, 35)}
	if rapid.IntRange(0, 3).Draw(t, "same") == 0 {
		c.V = c.H
	}
	n := rapid.IntRange(0, 6).Draw(t, "n")
	if rapid.IntRange(0, 2).Draw(t, "single") == 0 {
		n = 1
	}
	for i := 0; i < n; i++ {
		c.Pts = append(c.Pts, genPt(t, "p", c.H, c.V))
	}
	return c
}

func nearInt(x float64, eps float64) bool {
	return math.Abs(x-math.Round(x)) <= eps
}

func classifyC01(c *CaseC01) (bool, []string) {
	var cl []string
	nt := false
	if len(c.Pts) >= 2 {
		nt = true
		cl = append(cl, "list>=2")
	}
	if len(c.Pts) == 0 {
		cl = append(cl, "empty-list")
	}
	if c.H == c.V {
		cl = append(cl, "h==v")
	}
	for _, p := range c.Pts {
		n := math.Ldexp(1, int(c.H))
		if nearInt(n*(p.Lon.V()+180)/360, 1e-9) {
			nt = true
			cl = append(cl, "lon-on-tile-edge")
		}
		if nearInt(n*ref.MercFrac64(p.Lat.V()), 1e-9) {
			nt = true
			cl = append(cl, "lat-on-row-edge")
		}
		if nearInt(p.Alt.V()/math.Ldexp(1, int(25-c.V)), 1e-9) {
			nt = true
			cl = append(cl, "alt-on-cell-edge")
		}
		if p.Alt.V() < 0 {
			nt = true
			cl = append(cl, "alt<0")
		}
		if math.Abs(p.Lat.V()) > 85 {
			nt = true
			cl = append(cl, "|lat|>85")
		}
		if math.Abs(p.Lon.V()) == 180 {
			nt = true
			cl = append(cl, "lon=+-180")
		}
	}
	if c.H >= 30 || c.V >= 30 {
		cl = append(cl, "zoom>=30")
	}
	return nt, uniq(cl)
}

func uniq(ss []string) []string {
	m := map[string]struct{}{}
	var out []string
	for _, s := range ss {
		if _, ok := m[s]; !ok {
			m[s] = struct{}{}
			out = append(out, s)
		}
	}
	return out
}

func okIndex(got int64, r ref.IndexResult) bool {
	return got == r.Index || (r.NearEdge && got == r.Alt)
}

func checkC01(c *CaseC01, fl *Fails) {
	var pts []*object.Point
	for _, p := range c.Pts {
		o := p.obj()
		if o == nil {
			fl.Add("valid-point-rejected", "NewPoint rejected documented-valid point %+v", p)
			return
		}
		pts = append(pts, o)
	}
	ids, err := shape.GetExtendedSpatialIdsOnPoints(pts, c.H, c.V)
	if err != nil {
		fl.Add("error", "unexpected error %v", err)
		return
	}
	if len(ids) != len(pts) {
		fl.Add("length", "output has %d ids for %d points", len(ids), len(pts))
		return
	}
	n := int64(1) << uint(c.H)
	want := make([]ref.Box, len(ids))
	for i, id := range ids {
		b, perr := ref.ParseExt(id)
		if perr != nil {
			fl.Add("format", "id %q not a canonical extended id: %v", id, perr)
			return
		}
		want[i] = b
		p := pts[i]
		if b.H != c.H || b.V != c.V {
			fl.Add("zoom-field", "point %d: id %s does not carry the requested zooms %d/%d", i, id, c.H, c.V)
		}
		if b.X < 0 || b.X >= n {
			fl.Add("x-range", "point %d lon=%v: x=%d outside 0..2^%d-1 (id %s)", i, p.Lon(), b.X, c.H, id)
		} else if rx := ref.LonIndex(p.Lon(), c.H, lonBandDeg); !okIndex(b.X, rx) {
			fl.Add("x", "point %d lon=%v h=%d: x=%d, exact floor is %d", i, p.Lon(), c.H, b.X, rx.Index)
		}
		if b.Y < 0 || b.Y >= n {
			fl.Add("y-range", "point %d lat=%v: y=%d outside 0..2^%d-1 (id %s)", i, p.Lat(), b.Y, c.H, id)
		} else if ry := ref.LatIndex(p.Lat(), c.H, latBandFrac); !okIndex(b.Y, ry) {
			fl.Add("y", "point %d lat=%v h=%d: y=%d, reference floor is %d", i, p.Lat(), c.H, b.Y, ry.Index)
		}
		if rf := ref.AltIndex(p.Alt(), c.V, altBandM); !okIndex(b.F, rf) {
			fl.Add("f", "point %d alt=%v v=%d: f=%d, exact floor is %d", i, p.Alt(), c.V, b.F, rf.Index)
		}
	}
	// spatial-ID form: same voxel, z/f/x/y, same length and order
	if c.H == c.V {
		sids, err := shape.GetSpatialIdsOnPoints(pts, c.H)
		if err != nil {
			fl.Add("error", "spatial form: unexpected error %v", err)
		} else if len(sids) != len(ids) {
			fl.Add("length", "spatial form has %d ids for %d points", len(sids), len(pts))
		} else {
			for i := range sids {
				if sids[i] != want[i].Spatial() {
					fl.Add("spatial-form", "point %d: spatial id %q, extended id %q", i, sids[i], ids[i])
				}
			}
		}
	}
	// formula-independent cross-check on the first point: the voxel named by the ID contains
	// the point according to the inverse map (vertex query)
	if len(ids) > 0 && !fl.Has() {
		vs, err := shape.GetPointOnExtendedSpatialId(ids[0], enum.Vertex)
		if err == nil && len(vs) == 8 {
			p := pts[0]
			west, east := vs[0].Lon(), vs[1].Lon()
			north, south := vs[0].Lat(), vs[2].Lat()
			bottom, top := vs[0].Alt(), vs[4].Alt()
			lon := p.Lon()
			if lon == 180 {
				lon = -180
			}
			if lon < west-lonBandDeg || lon > east+lonBandDeg {
				fl.Add("inverse-lon", "lon %v not inside voxel %s lon range [%v, %v]", lon, ids[0], west, east)
			}
			if p.Lat() > north+2*latTruncBand || p.Lat() < south-2*latTruncBand {
				fl.Add("inverse-lat", "lat %v not inside voxel %s lat range [%v, %v]", p.Lat(), ids[0], south, north)
			}
			if math.Abs(p.Alt()) > altBandM && (p.Alt() < bottom || p.Alt() > top) {
				fl.Add("inverse-alt", "alt %v not inside voxel %s alt range [%v, %v]", p.Alt(), ids[0], bottom, top)
			}
		}
	}
}

// trackC01: a dense one-directional track (steps of about a metre), northwards or eastwards: each point's ID must not
// depend on its predecessors in the list.
func trackC01(n int, h, v int64, north bool) *CaseC01 {
	c := &CaseC01{H: h, V: v}
	for i := 0; i < n; i++ {
		p := Pt{F64(139.767125), F64(35.681236 + 9.1e-6*float64(i)), F64(12.5)}
		if !north {
			p = Pt{F64(139.767125 + 1.1e-5*float64(i)), F64(35.681236), F64(12.5 - 0.01*float64(i))}
		}
		c.Pts = append(c.Pts, p)
	}
	return c
}

func sweepC01(tier string, emit func(*CaseC01)) {
	for _, h := range []int64{25, 26, 28, 33} {
		if tier == "quick" && h == 26 {
			continue
		}
		emit(trackC01(4000, h, 25, true))
		emit(trackC01(4000, h, 30, false))
	}
	emit(bigListC01(66000, 20, 20))
	// round list lengths (block / batch sizes inside an implementation): n-4 filler points + 4 -> 1024, 2048, 4096 and neighbours
	for _, n := range []int{1020, 1019, 1021, 2044, 4092, 508, 252} {
		emit(allProcs(bigListC01(n, 18, 25)))
	}
	if tier != "quick" {
		emit(bigListC01(140000, 35, 0))
		emit(bigListC01(1100, 7, 30))
	}
	lons := []float64{-180, 180, math.Nextafter(180, 0), math.Nextafter(-180, 0), 0, math.Copysign(0, -1), -90, 90, 139.767125, -5e-324, 45, math.Nextafter(45, 0)}
	lats := []float64{latLimit, -latLimit, 0, 1e-10, -1e-10, 35.681236, -66.51326044311186, 85.05}
	alts := []float64{0, math.Copysign(0, -1), -0.5, -1, 1, altLimit, -altLimit, math.Nextafter(-altLimit, 0), -5e-324, 16777216, -16777216, math.Nextafter(0.5, 0), -1024.25}
	for h := int64(0); h <= 35; h++ {
		for v := int64(0); v <= 35; v++ {
			if tier == "quick" && (h+v)%3 != 0 && h != v {
				continue
			}
			c := &CaseC01{H: h, V: v}
			for i := 0; i < len(alts); i++ {
				c.Pts = append(c.Pts, Pt{F64(lons[i%len(lons)]), F64(lats[i%len(lats)]), F64(alts[i])})
			}
			emit(c)
			c2 := &CaseC01{H: h, V: v}
			for i := 0; i < len(lons); i++ {
				c2.Pts = append(c2.Pts, Pt{F64(lons[i]), F64(lats[(i+3)%len(lats)]), F64(alts[(i+5)%len(alts)])})
			}
			emit(c2)
		}
	}
}

// bigListC01: a long list in which the first point recurs after n pairwise different latitudes (size thresholds,
// per-call memo tables with eviction).
func bigListC01(n int, h, v int64) *CaseC01 {
	c := &CaseC01{H: h, V: v}
	a := Pt{F64(139.767125), F64(35.681236), F64(-12.5)}
	c.Pts = append(c.Pts, a)
	for i := 0; i < n; i++ {
		c.Pts = append(c.Pts, Pt{F64(-179.5 + 359*float64(i)/float64(n)), F64(-84.9 + 169.8*float64(i)/float64(n)), F64(float64(i%4001) - 2000.25)})
	}
	c.Pts = append(c.Pts, a, Pt{F64(-45.25), F64(35.681236), F64(7)}, a)
	return c
}

func init() {
	register(PropT[CaseC01]{
		ID:   "C01",
		Rule: "rapid: list (0..6) of documented-valid points (uniform / domain edges / exact tile, row and cell boundaries +-1ulp) x (hZoom,vZoom) in 0..35^2; sweep: zoom pairs x fixed edge points. Non-trivial: some point within 1e-9 cells of a cell edge on an axis, or alt<0, or |lat|>85, or lon=+-180, or list length>=2. Distinct = hash of the JSON case (float bits, zooms).",
		Assumptions: []string{
			"x compared with exact rational floor; either neighbour accepted only if the point is within 2^-42 deg of a tile edge; x=2^h never accepted",
			"y compared with 256-bit evaluation of (1-asinh(tan lat)/pi)/2; either neighbour accepted within 2^-45 of a row edge",
			"f compared with exact rational floor; either neighbour accepted only within 2^-1000 m of a cell edge (float underflow)",
			"point latitude = value stored by object.Point (truncation is checked in C15)",
		},
		Gen: genC01, Check: checkC01, Classify: classifyC01, Sweep: sweepC01,
		Related: func(c *CaseC01) []*CaseC01 {
			if len(c.Pts) == 0 || len(c.Pts) > 64 {
				return nil
			}
			var out []*CaseC01
			// other zooms, same points
			out = append(out, &CaseC01{H: clamp64(c.H+1, 0, 35), V: clamp64(c.V-1, 0, 35), Pts: c.Pts})
			// same horizontal positions, other altitudes / same altitudes, other positions; reversed order
			a := &CaseC01{H: c.H, V: c.V}
			b := &CaseC01{H: c.H, V: c.V}
			for i := len(c.Pts) - 1; i >= 0; i-- {
				p := c.Pts[i]
				a.Pts = append(a.Pts, Pt{p.Lon, p.Lat, F64(-p.Alt.V()/2 + 1)})
				b.Pts = append(b.Pts, Pt{F64(-p.Lon.V()), F64(-p.Lat.V()), p.Alt})
			}
			return append(out, a, b)
		},
		SweepScopes: func(tier string) []string {
			if tier == "quick" {
				return []string{"one third of the 36x36 zoom pairs (plus all h=v) x 25 fixed edge points", "one list of 66 004 points in which a point recurs after 66 000 different latitudes"}
			}
			return []string{"all 36x36 zoom pairs x 25 fixed edge points (exhaustive over the zoom pairs)", "lists of 1 104, 66 004 and 140 004 points in which a point recurs after that many different latitudes"}
		},
	})
}
