package checks

import (
	"math"

	"github.com/trajectoryjp/spatial_id_go/v4/common/enum"
	"github.com/trajectoryjp/spatial_id_go/v4/common/object"
	"github.com/trajectoryjp/spatial_id_go/v4/shape"
	"pgregory.net/rapid"

	"verif/ref"
)

type CaseC02 struct {
	Box     ref.Box
	Spatial bool  // use the z/f/x/y notation (H == V)
	Rows    int64 `json:",omitempty"` // sweep: number of rows the shared-face comparison follows down the column (default 13)
}

func genC02(t *rapid.T) *CaseC02 {
	c := &CaseC02{}
	if rapid.IntRange(0, 2).Draw(t, "spatial") == 0 {
		z := genZoom(t, "z", 0, 35)
		c.Box = genBoxAt(t, "b", z, z)
		c.Spatial = true
	} else {
		c.Box = genBox(t, "b")
	}
	return c
}

func classifyC02(c *CaseC02) (bool, []string) {
	b := c.Box
	n := int64(1) << uint(b.H)
	var cl []string
	nt := false
	if b.H >= 30 || b.V >= 30 {
		nt = true
		cl = append(cl, "zoom>=30")
	}
	if b.X == 0 || b.X == n-1 {
		nt = true
		cl = append(cl, "first/last-column")
	}
	if b.Y == 0 || b.Y == n-1 {
		nt = true
		cl = append(cl, "first/last-row")
	}
	if b.F < 0 {
		nt = true
		cl = append(cl, "f<0")
	}
	if c.Spatial {
		cl = append(cl, "spatial-notation")
	}
	return nt, cl
}

// latOK: reported latitude equals the true one cut toward zero by less than 1e-10 (plus float slack).
func latOK(reported, truth float64, cuts float64) bool {
	slack := 2e-13
	if truth >= 0 {
		return reported <= truth+slack && reported >= truth-cuts*1e-10-slack && (reported >= 0 || truth < cuts*1e-10+slack)
	}
	return reported >= truth-slack && reported <= truth+cuts*1e-10+slack
}

func c02Query(c *CaseC02, b ref.Box, opt enum.PointOption) ([]*object.Point, error) {
	if c.Spatial {
		return shape.GetPointOnSpatialId(b.Spatial(), opt)
	}
	return shape.GetPointOnExtendedSpatialId(b.Ext(), opt)
}

func checkC02(c *CaseC02, fl *Fails) {
	b := c.Box
	id := b.Ext()
	vs, err := c02Query(c, b, enum.Vertex)
	if err != nil {
		fl.Add("error", "vertex query of valid id %s failed: %v", id, err)
		return
	}
	if len(vs) != 8 {
		fl.Add("length", "vertex query of %s returned %d points", id, len(vs))
		return
	}
	n := int64(1) << uint(b.H)
	west, east := ref.ColWestLon(b.X, b.H), ref.ColWestLon(b.X+1, b.H)
	north, south := ref.RowNorthLat(b.Y, b.H), ref.RowNorthLat(b.Y+1, b.H)
	res := math.Ldexp(1, int(25-b.V))
	bottom, top := float64(b.F)*res, float64(b.F+1)*res
	// documented order: NW, NE, SE, SW (bottom), then the same for the top face
	wantLon := []float64{west, east, east, west, west, east, east, west}
	wantLat := []float64{north, north, south, south, north, north, south, south}
	wantAlt := []float64{bottom, bottom, bottom, bottom, top, top, top, top}
	names := []string{"NW-bottom", "NE-bottom", "SE-bottom", "SW-bottom", "NW-top", "NE-top", "SE-top", "SW-top"}
	for i, v := range vs {
		if math.Abs(v.Lon()-wantLon[i]) > lonBandDeg {
			fl.Add("vertex-lon", "%s vertex %d (%s): lon %v, expected %v", id, i, names[i], v.Lon(), wantLon[i])
		}
		if !latOK(v.Lat(), wantLat[i], 1) {
			fl.Add("vertex-lat", "%s vertex %d (%s): lat %v, expected %v cut toward zero by <1e-10", id, i, names[i], v.Lat(), wantLat[i])
		}
		if v.Alt() != wantAlt[i] {
			fl.Add("vertex-alt", "%s vertex %d (%s): alt %v, expected exactly %v", id, i, names[i], v.Alt(), wantAlt[i])
		}
	}
	// grid limits
	if b.X == 0 && vs[0].Lon() != -180 {
		fl.Add("grid-limit", "%s: first column west edge %v != -180", id, vs[0].Lon())
	}
	if b.X == n-1 && vs[1].Lon() != 180 {
		fl.Add("grid-limit", "%s: last column east edge %v != 180", id, vs[1].Lon())
	}
	if b.Y == 0 && vs[0].Lat() != latLimit {
		fl.Add("grid-limit", "%s: first row north edge %v != %v", id, vs[0].Lat(), latLimit)
	}
	if b.Y == n-1 && vs[2].Lat() != -latLimit {
		fl.Add("grid-limit", "%s: last row south edge %v != %v", id, vs[2].Lat(), -latLimit)
	}

	// the returned points belong to the caller: modifying them must not influence later queries
	for i, v := range vs {
		v.SetAlt(v.Alt()*3 + float64(i) + 1000.5)
		_ = v.SetLon(-v.Lon() / 2)
		_ = v.SetLat(v.Lat() / 3)
	}
	// centre = midpoint
	cs, err := c02Query(c, b, enum.Center)
	if err != nil || len(cs) != 1 {
		fl.Add("center", "centre query of %s: %d points, err %v", id, len(cs), err)
		return
	}
	ct := cs[0]
	if math.Abs(ct.Lon()-(west+east)/2) > lonBandDeg {
		fl.Add("center-lon", "%s centre lon %v, expected %v", id, ct.Lon(), (west+east)/2)
	}
	if ct.Alt() != (bottom+top)/2 {
		fl.Add("center-alt", "%s centre alt %v, expected exactly %v", id, ct.Alt(), (bottom+top)/2)
	}
	mid := (north + south) / 2
	if math.Abs(ct.Lat()-mid) > 2e-10+4e-13 || math.Abs(ct.Lat()) > math.Abs(mid)+4e-13 {
		fl.Add("center-lat", "%s centre lat %v, expected %v (cut toward zero by < 2e-10)", id, ct.Lat(), mid)
	}
	// round trip centre -> id at the same zooms
	back, err := shape.GetExtendedSpatialIdsOnPoints([]*object.Point{ct}, b.H, b.V)
	if err != nil || len(back) != 1 {
		fl.Add("roundtrip", "%s: centre -> id failed: %v %v", id, back, err)
	} else if back[0] != id {
		fl.Add("roundtrip", "%s: centre (%v,%v,%v) maps back to %s", id, ct.Lon(), ct.Lat(), ct.Alt(), back[0])
	}
	if c.Spatial {
		sb, err := shape.GetSpatialIdsOnPoints([]*object.Point{ct}, b.H)
		if err != nil || len(sb) != 1 || sb[0] != b.Spatial() {
			fl.Add("roundtrip", "%s: centre maps back to spatial %v (err %v)", b.Spatial(), sb, err)
		}
	}

	// and the vertex query itself is unaffected by the modified result of the first one (and of the centre)
	_ = ct.SetLon(1)
	ct.SetAlt(-1)
	if again, err := c02Query(c, b, enum.Vertex); err != nil || len(again) != 8 {
		fl.Add("result-aliasing", "%s: second vertex query fails (%v)", id, err)
	} else {
		for i, v := range again {
			if math.Abs(v.Lon()-wantLon[i]) > lonBandDeg || !latOK(v.Lat(), wantLat[i], 1) || v.Alt() != wantAlt[i] {
				fl.Add("result-aliasing", "%s: after the caller modified the points returned by the first vertex query, a second query returns vertex %d = (%v,%v,%v)", id, i, v.Lon(), v.Lat(), v.Alt())
				break
			}
		}
		vs = again
	}
	// shared faces are reported bit for bit by both neighbours
	if b.X+1 < n {
		e := b
		e.X++
		if ws, err := c02Query(c, e, enum.Vertex); err == nil && len(ws) == 8 {
			if ws[0].Lon() != vs[1].Lon() || ws[3].Lon() != vs[2].Lon() {
				fl.Add("shared-face", "%s east edge %v but eastern neighbour's west edge %v", id, vs[1].Lon(), ws[0].Lon())
			}
		}
	}
	if b.Y+1 < n {
		s := b
		s.Y++
		if ss, err := c02Query(c, s, enum.Vertex); err == nil && len(ss) == 8 {
			if ss[0].Lat() != vs[3].Lat() || ss[1].Lat() != vs[2].Lat() {
				fl.Add("shared-face", "%s south edge %v but southern neighbour's north edge %v", id, vs[2].Lat(), ss[0].Lat())
			}
			// ... and so on down the column: a mismatch between two differently rounded formulas for the same edge shows
			// in about one row in 10^5, so every case follows the column for a dozen more rows
			prev := ss
			rows := int64(13)
			if c.Rows > 0 {
				rows = c.Rows
			}
			for k := int64(2); k <= rows && b.Y+k < n; k++ {
				s.Y = b.Y + k
				cur, err := c02Query(c, s, enum.Vertex)
				if err != nil || len(cur) != 8 {
					break
				}
				Count("c02_column_row_pairs", 1)
				if cur[0].Lat() != prev[3].Lat() || cur[1].Lat() != prev[2].Lat() {
					fl.Add("shared-face", "row %d of column %d at zoom %d: south edge %v but the next row's north edge %v", s.Y-1, s.X, s.H, prev[2].Lat(), cur[0].Lat())
					break
				}
				prev = cur
			}
		}
	}
	if b.F+1 < int64(1)<<uint(b.V) {
		u := b
		u.F++
		if us, err := c02Query(c, u, enum.Vertex); err == nil && len(us) == 8 {
			if us[0].Alt() != vs[4].Alt() {
				fl.Add("shared-face", "%s top %v but upper neighbour's bottom %v", id, vs[4].Alt(), us[0].Alt())
			}
		}
	}
}

func sweepC02(tier string, emit func(*CaseC02)) {
	// long columns: tens of thousands of consecutive rows at mid latitudes, every shared edge compared bit for bit
	rows := int64(40000)
	if tier != "quick" {
		rows = 400000
	}
	for _, h := range []int64{13, 17, 20, 22, 25, 28, 31, 35} {
		n := int64(1) << uint(h)
		y := n/2 - n/5 // about 58 degrees north ... the run moves south from there
		if h <= 17 {
			y = n / 8
		}
		emit(&CaseC02{Box: ref.Box{H: h, X: n - n/9, Y: y, V: 25, F: 3}, Rows: min64(rows, n-y-2)})
	}
	for h := int64(0); h <= 35; h++ {
		for v := int64(0); v <= 35; v++ {
			if tier == "quick" && (h*7+v)%4 != 0 && h != v {
				continue
			}
			n := int64(1) << uint(h)
			m := int64(1) << uint(v)
			for _, xy := range [][2]int64{{0, 0}, {n - 1, n - 1}, {n / 2, n / 2}, {0, n - 1}, {n / 3, n/2 - 1}} {
				for _, f := range []int64{-m, -1, 0, m - 1} {
					b := ref.Box{H: h, X: clamp64(xy[0], 0, n-1), Y: clamp64(xy[1], 0, n-1), V: v, F: f}
					emit(&CaseC02{Box: b})
					if h == v {
						emit(&CaseC02{Box: b, Spatial: true})
					}
				}
			}
		}
	}
}

func init() {
	register(PropT[CaseC02]{
		ID:   "C02",
		Rule: "rapid: valid voxel at any (h,v) in 0..35^2 with x,y,f weighted to the grid edges and f<0, both notations; sweep: zoom pairs x {first,last,middle} rows/columns x {-2^v,-1,0,2^v-1}. Non-trivial: zoom>=30 on an axis, or first/last row or column, or f<0. Distinct = hash of (box, notation).",
		Assumptions: []string{
			"vertex longitudes within 2^-42 deg of the exact rational 360x/2^h-180; altitudes compared exactly",
			"vertex latitudes: closed form gd(pi(1-2y/2^h)) evaluated as 2atan(exp)-pi/2, accepted if cut toward zero by < 1e-10 (+2e-13 float slack); centre latitude within 2e-10",
			"shared faces and the round trip centre -> ID are compared exactly (bit for bit / string equality)",
		},
		Gen: genC02, Check: checkC02, Classify: classifyC02, Sweep: sweepC02,
		Related: func(c *CaseC02) []*CaseC02 {
			var out []*CaseC02
			for _, b := range []ref.Box{{H: c.Box.H + 1, X: c.Box.X, Y: c.Box.Y, V: c.Box.V + 1, F: c.Box.F}, {H: c.Box.H, X: c.Box.Y, Y: c.Box.X, V: c.Box.V, F: c.Box.F}, {H: c.Box.H, X: c.Box.X, Y: c.Box.Y, V: c.Box.V, F: -c.Box.F - 1}} {
				if b.Valid() {
					out = append(out, &CaseC02{Box: b, Spatial: c.Spatial && b.H == b.V})
				}
			}
			return out
		},
		SweepScopes: func(tier string) []string {
			if tier == "quick" {
				return []string{"a quarter of the 36x36 zoom pairs (plus all h=v) x 5 row/column positions x 4 vertical indices"}
			}
			return []string{"all 36x36 zoom pairs x 5 row/column positions x 4 vertical indices, both notations where h=v"}
		},
	})
}
