package checks

import (
	"math"
	"strings"

	"github.com/trajectoryjp/spatial_id_go/v4/common/object"
	"github.com/trajectoryjp/spatial_id_go/v4/shape"
	"pgregory.net/rapid"
)

type CaseC18 struct {
	Pts []Pt
	CRS int
}

var knownCRS = func() []int {
	c := []int{4326, 4978, 3857, 900913, 4258, 3416, 3035, 31287, 31284, 31285, 31286, 31257, 31258, 31259, 4314, 27700, 4277, 4171, 2154, 4269, 6355, 6356, 6414}
	for i := 1; i < 61; i++ {
		c = append(c, 32600+i, 32700+i)
	}
	for i := 42; i < 51; i++ {
		c = append(c, 3900+i)
	}
	for i := 2; i < 6; i++ {
		c = append(c, 31464+i)
	}
	for i := 28; i < 39; i++ {
		c = append(c, 25800+i)
	}
	return c
}()

func isKnownCRS(c int) bool {
	for _, k := range knownCRS {
		if k == c {
			return true
		}
	}
	return false
}

func genC18(t *rapid.T) *CaseC18 {
	c := &CaseC18{}
	switch rapid.IntRange(0, 9).Draw(t, "crsKind") {
	case 0, 1, 2, 3, 4, 5:
		c.CRS = 3857
	case 6, 7:
		c.CRS = rapid.SampledFrom(knownCRS).Draw(t, "crs")
	case 8:
		// neighbours of valid codes, and codes other systems use for Web Mercator / WGS84 that are NOT in the bundled
		// table (ESRI 102100 / 102113 / 54004, the retired 3785 / 3587, 41001, 4326-like 104326 ...)
		c.CRS = rapid.SampledFrom([]int{0, -1, 1, 2000, 99999, 3856, 3858, 32600, 32661, 32700, 4327, math.MaxInt32, math.MinInt32,
			102100, 102113, 3785, 3587, 54004, 41001, 900912, 900914, 104326, 4979, 3395, 102003}).Draw(t, "badcrs")
	default:
		c.CRS = rapid.IntRange(-100000, 1000000).Draw(t, "anycrs")
	}
	n := rapid.IntRange(0, 5).Draw(t, "n")
	if rapid.Bool().Draw(t, "single") {
		n = 1
	}
	for i := 0; i < n; i++ {
		c.Pts = append(c.Pts, genPt(t, "p", 20, 25))
	}
	if len(c.Pts) >= 1 && rapid.IntRange(0, 7).Draw(t, "twin") == 3 {
		// a neighbour that compares equal without being identical: the same position with the altitude's sign bit
		// flipped at zero (+0.0 / -0.0), or one ulp away, inserted right after / before its twin
		i := rapid.IntRange(0, len(c.Pts)-1).Draw(t, "twinAt")
		tw := c.Pts[i]
		switch rapid.IntRange(0, 2).Draw(t, "twinKind") {
		case 0:
			c.Pts[i].Alt = F64(0)
			tw.Alt = F64(math.Copysign(0, -1))
		case 1:
			c.Pts[i].Alt = F64(math.Copysign(0, -1))
			tw.Alt = F64(0)
		default:
			tw.Alt = F64(math.Nextafter(tw.Alt.V(), 0))
		}
		c.Pts = append(c.Pts[:i+1], append([]Pt{tw}, c.Pts[i+1:]...)...)
	}
	if rapid.IntRange(0, 11).Draw(t, "prism") == 0 {
		// the layout of the library's own vertex lists: a ring of k positions, then the same ring again at other
		// altitudes (flat or sloped floor / roof)
		k := rapid.SampledFrom([]int{2, 3, 4, 4, 4, 5}).Draw(t, "ring")
		var ring []Pt
		for i := 0; i < k; i++ {
			ring = append(ring, genPt(t, "rp", 20, 25))
		}
		floor := rapid.Float64Range(-100, 100).Draw(t, "floor")
		c.Pts = nil
		for level := 0; level < 2; level++ {
			for i, p := range ring {
				alt := floor + float64(level)*rapid.Float64Range(0.5, 50).Draw(t, "height")
				if rapid.Bool().Draw(t, "slope") {
					alt += float64(i) * 1.25
				}
				c.Pts = append(c.Pts, Pt{p.Lon, p.Lat, F64(alt)})
			}
		}
	}
	return c
}

func classifyC18(c *CaseC18) (bool, []string) {
	var cl []string
	nt := false
	for _, p := range c.Pts {
		if math.Abs(p.Lat.V()) > 80 {
			nt = true
			cl = append(cl, "|lat|>80")
		}
		if math.Abs(p.Lon.V()) > 179 {
			nt = true
			cl = append(cl, "|lon|>179")
		}
		if math.Abs(p.Alt.V()) > 1000 {
			nt = true
			cl = append(cl, "|alt|>1km")
		}
	}
	if len(c.Pts) >= 2 {
		nt = true
		cl = append(cl, "list>=2")
	}
	if len(c.Pts) == 0 {
		cl = append(cl, "empty-list")
	}
	switch {
	case c.CRS == 3857:
		cl = append(cl, "crs=3857")
	case isKnownCRS(c.CRS):
		cl = append(cl, "crs=other-known")
	default:
		cl = append(cl, "crs=unknown")
	}
	return nt, uniq(cl)
}

const earthR = 6378137.0

func checkC18(c *CaseC18, fl *Fails) {
	var pts []*object.Point
	for _, p := range c.Pts {
		o := p.obj()
		if o == nil {
			fl.Add("valid-point-rejected", "NewPoint rejected %+v", p)
			return
		}
		pts = append(pts, o)
	}
	out, err := shape.ConvertPointListToProjectedPointList(pts, c.CRS)
	hi := ""
	for _, p := range pts {
		if math.Abs(p.Alt()) > 1e4 {
			hi = "-high-altitude"
		}
	}
	if !isKnownCRS(c.CRS) {
		if err == nil {
			kind := "unknown-crs-accepted"
			if len(pts) == 0 {
				kind = "unknown-crs-accepted-empty-list"
			}
			fl.Add(kind, "EPSG:%d is not in the bundled table but ConvertPointListToProjectedPointList(%d points) returned no error", c.CRS, len(pts))
		} else {
			if !strings.HasPrefix(err.Error(), "ValueConvertError") {
				fl.Add("error-kind", "unknown EPSG:%d reported as %q, expected a ValueConvertError", c.CRS, err.Error())
			}
			if len(out) != 0 {
				fl.Add("unknown-crs-result", "unknown EPSG:%d: %d points returned with the error", c.CRS, len(out))
			}
		}
		back, berr := shape.ConvertProjectedPointListToPointList([]*object.ProjectedPoint{{X: 1, Y: 2, Alt: 3}}, c.CRS)
		if berr == nil || len(back) != 0 {
			fl.Add("unknown-crs-accepted", "inverse direction accepts unknown EPSG:%d (%d points, err %v)", c.CRS, len(back), berr)
		}
		back, berr = shape.ConvertProjectedPointListToPointList(nil, c.CRS)
		if berr == nil || len(back) != 0 {
			fl.Add("unknown-crs-accepted-empty-list", "inverse direction accepts unknown EPSG:%d for an empty list (err %v)", c.CRS, berr)
		}
		return
	}
	if err != nil {
		// a point outside the area of use of the CRS: allowed for every CRS except the world-wide ones
		if c.CRS == 3857 || c.CRS == 900913 || c.CRS == 4326 || c.CRS == 4978 {
			fl.Add("error"+hi, "EPSG:%d: unexpected error %v for valid points %s", c.CRS, err, jsonStr(c.Pts))
		}
		if !strings.HasPrefix(err.Error(), "ValueConvertError") {
			fl.Add("error-kind", "conversion failure reported as %q", err.Error())
		}
		return
	}
	if len(out) != len(pts) {
		fl.Add("length", "EPSG:%d: %d projected points for %d inputs with nil error", c.CRS, len(out), len(pts))
		return
	}
	for i, pp := range out {
		if math.Float64bits(pp.Alt) != math.Float64bits(pts[i].Alt()) {
			fl.Add("altitude", "EPSG:%d point %d: altitude %v became %v", c.CRS, i, pts[i].Alt(), pp.Alt)
		}
	}
	if c.CRS == 3857 || c.CRS == 900913 {
		for i, pp := range out {
			p := pts[i]
			wx := earthR * p.Lon() * math.Pi / 180
			wy := earthR * math.Asinh(math.Tan(p.Lat()*math.Pi/180))
			kind := "mercator"
			if math.Abs(p.Alt()) > 1e4 {
				kind = "mercator-high-altitude"
			}
			if math.Abs(pp.X-wx) > 1e-4+1e-12*math.Abs(wx) || math.Abs(pp.Y-wy) > 1e-4+1e-12*math.Abs(wy) {
				fl.Add(kind, "EPSG:%d point %d (%v,%v,%v): projected to (%v,%v), spherical Mercator on R=6378137 gives (%v,%v)", c.CRS, i, p.Lon(), p.Lat(), p.Alt(), pp.X, pp.Y, wx, wy)
			}
		}
	}
	// round trip
	back, err := shape.ConvertProjectedPointListToPointList(out, c.CRS)
	if err != nil {
		if c.CRS == 3857 || c.CRS == 900913 || c.CRS == 4326 || c.CRS == 4978 {
			fl.Add("error"+hi, "EPSG:%d: inverse conversion of %v fails: %v", c.CRS, jsonStr(c.Pts), err)
		}
		return
	}
	if len(back) != len(pts) {
		fl.Add("length", "EPSG:%d: inverse returned %d points for %d", c.CRS, len(back), len(pts))
		return
	}
	for i, b := range back {
		p := pts[i]
		if math.Float64bits(b.Alt()) != math.Float64bits(p.Alt()) {
			fl.Add("altitude", "EPSG:%d point %d: altitude %v came back as %v", c.CRS, i, p.Alt(), b.Alt())
		}
		if c.CRS == 3857 || c.CRS == 900913 {
			dl := math.Abs(b.Lon() - p.Lon())
			if dl > 180 {
				dl = 360 - dl // lon = 180 and -180 are the same meridian
			}
			kind := "roundtrip"
			if math.Abs(p.Alt()) > 1e4 {
				kind = "roundtrip-high-altitude"
			}
			if dl > 2e-10+0x1p-45 || math.Abs(b.Lat()-p.Lat()) > 2e-10+0x1p-45 {
				fl.Add(kind, "EPSG:%d point %d (%v,%v,%v) came back as (%v,%v): off by (%.3g, %.3g) deg", c.CRS, i, p.Lon(), p.Lat(), p.Alt(), b.Lon(), b.Lat(), b.Lon()-p.Lon(), b.Lat()-p.Lat())
			}
		}
	}
}

func sweepC18(tier string, emit func(*CaseC18)) {
	// creeping tracks: consecutive points a millimetre (1e-8 deg / 1 mm of altitude) or less apart, and repeated
	// positions with altitudes differing by less than a millimetre - different points that are "almost the same"
	for _, step := range []float64{9e-9, 1.3e-8, 2.5e-8, 1e-9} {
		for _, crs := range []int{3857, 900913, 32654} {
			var track, hover []Pt
			for i := 0; i < 60; i++ {
				track = append(track, Pt{F64(139.767125 + step*float64(i)), F64(35.681236 + step*float64(i)/2), F64(10 + 0.001*float64(i%3))})
				hover = append(hover, Pt{F64(139.767125), F64(35.681236), F64(10 + 0.0007*float64(i))})
			}
			emit(&CaseC18{Pts: track, CRS: crs})
			emit(&CaseC18{Pts: hover, CRS: crs})
		}
	}
	pts := []Pt{{F64(139.767125), F64(35.681236), F64(100)}, {F64(-180), F64(-latLimit), F64(-altLimit)}, {F64(180), F64(latLimit), F64(altLimit)}, {F64(0), F64(0), F64(0)},
		{F64(13.4), F64(52.5), F64(1e6)}, {F64(-86.5), F64(32.5), F64(-1e4)}, {F64(2.35), F64(48.85), F64(35.5)}, {F64(-1.5), F64(53), F64(12345.678)}}
	for _, crs := range knownCRS {
		emit(&CaseC18{Pts: pts[:1], CRS: crs})
		for i := range pts {
			emit(&CaseC18{Pts: pts[i : i+1], CRS: crs})
		}
		emit(&CaseC18{Pts: nil, CRS: crs})
	}
	for _, crs := range []int{0, -1, 1, 3856, 3858, 32600, 32661, 32700, 32761, 99999} {
		emit(&CaseC18{Pts: pts[:2], CRS: crs})
		emit(&CaseC18{Pts: nil, CRS: crs})
	}
	for _, alt := range []float64{0, 1, -1, 100, 1e3, -1e3, 1e4, 1e5, 1e6, -1e6, 1e7, altLimit, -altLimit} {
		for _, ll := range [][2]float64{{139.767125, 35.681236}, {-70, -60}, {179.9, 84}, {0.001, 0.001}} {
			emit(&CaseC18{Pts: []Pt{{F64(ll[0]), F64(ll[1]), F64(alt)}}, CRS: 3857})
		}
	}
}

func init() {
	register(PropT[CaseC18]{
		ID:          "C18",
		Rule:        "rapid: list (0..5) of documented-valid points (C01 generator: domain edges, negative and extreme altitudes) x EPSG code: 60% 3857, 20% another code of the bundled table, 20% unknown codes (neighbours of valid codes, random). Sweep: every code of the bundled table x 8 fixed points (and the empty list), 10 unknown codes, 13 altitudes x 4 positions on 3857. Non-trivial: |lat|>80 or |lon|>179 or |alt|>1km or list length>=2.",
		Assumptions: []string{"EPSG:3857 forward compared with x=R*lon*pi/180, y=R*asinh(tan lat), R=6378137, tolerance 1e-4 m + 1e-12 relative", "round trip tolerance 2e-10 deg (property) + 2^-45; lon 180 and -180 identified", "other codes: a conversion error (point outside the CRS's area of use) is accepted; otherwise length, order and bit-identical altitude are required", "bundled EPSG table enumerated in the check (from the wgs84 v1.1.7 source)"},
		Gen:         genC18, Check: checkC18, Classify: classifyC18, Sweep: sweepC18,
		Related: func(c *CaseC18) []*CaseC18 {
			if len(c.Pts) == 0 {
				return nil
			}
			// same positions with other altitudes (each point twice in a row with different altitudes); another CRS
			a := &CaseC18{CRS: c.CRS}
			for _, p := range c.Pts {
				a.Pts = append(a.Pts, Pt{p.Lon, p.Lat, F64(p.Alt.V()/4 + 3)}, Pt{p.Lon, p.Lat, F64(-7.5)})
			}
			other := 3857
			if c.CRS == 3857 {
				other = 4326
			}
			return []*CaseC18{a, {Pts: c.Pts, CRS: other}}
		},
		SweepScopes: func(tier string) []string {
			return []string{"every EPSG code of the bundled table (177 codes) x 8 fixed points + empty list (exhaustive over the table)", "10 unknown codes x {2 points, empty list}", "EPSG:3857: 13 altitudes from 0 to +-2^25 m x 4 positions"}
		},
	})
}

// F8: failures of the numeric 3857 claims (and of the altitude / lon / lat carried back, when the
// inverse conversion silently yields a zero point) that involve a point with |alt| > 1e4 m.
func init() {
	matchers["c18-high-altitude"] = func(c any, f Fail) bool {
		cc := c.(*CaseC18)
		high := false
		for _, p := range cc.Pts {
			if math.Abs(p.Alt.V()) > 1e4 {
				high = true
			}
		}
		if !high {
			return false
		}
		switch f.Kind {
		case "mercator-high-altitude", "roundtrip-high-altitude", "error-high-altitude":
			return true
		}
		return false
	}
}
