package checks

import (
	"math"
	"math/big"
	"sort"
	"strconv"

	"github.com/trajectoryjp/spatial_id_go/v4/common/object"
	"github.com/trajectoryjp/spatial_id_go/v4/transform"
	"pgregory.net/rapid"

	"verif/ref"
)

type CaseC17 struct {
	Forward  bool  // voxel -> bit-form IDs; else bit-form ID -> voxels
	V, F     int64 // forward: the voxel's vertical zoom / index
	Z        int64 // zoom of the binary subdivision
	K        int64 // backward: bit-form index (0..2^Z-1)
	OutV     int64 // backward: output vertical zoom
	Min, Max F64   // height range
	Spatial  bool  // forward through the single-zoom API (h = v)
	// Others: forward, extended form only: further voxels of the same column (vertical zoom, index) converted in the same
	// call; MainFirst lists the main voxel before them, otherwise after them
	Others    [][2]int64 `json:",omitempty"`
	MainFirst bool       `json:",omitempty"`
	Reuse     int64      `json:",omitempty"` // backward: the pair object is a re-used object filled through its setters
	// Twin: backward: a second pair object with the same quadkey, zoom and index but a height range of the same width
	// moved by Twin/4 of that width is converted in the same call (before the main one if TwinFirst)
	Twin      int64 `json:",omitempty"`
	TwinFirst bool  `json:",omitempty"`
	// Wide: sweep only, forward: the voxel 10/500/300/V/F is converted at horizontal zoom 10+Wide (4^Wide quadkeys per
	// vertical cell), alone, twice, and together with a descendant
	Wide int64 `json:",omitempty"`
}

func genRange(t *rapid.T) (float64, float64) {
	switch rapid.IntRange(0, 4).Draw(t, "rangeKind") {
	case 0: // symmetric dyadic
		e := rapid.IntRange(0, 25).Draw(t, "re")
		return -math.Ldexp(1, e), math.Ldexp(1, e)
	case 1: // asymmetric dyadic
		e := rapid.IntRange(0, 24).Draw(t, "re")
		k := float64(rapid.IntRange(-8, 8).Draw(t, "rk"))
		return k * math.Ldexp(1, e), (k + float64(rapid.IntRange(1, 8).Draw(t, "rw"))) * math.Ldexp(1, e)
	case 2: // documented example
		return -256, 256
	case 3: // non-dyadic
		lo := rapid.Float64Range(-5000, 5000).Draw(t, "rlo")
		return lo, lo + rapid.Float64Range(0.001, 10000).Draw(t, "rw")
	default:
		lo := float64(rapid.IntRange(-1000, 1000).Draw(t, "rlo"))
		return lo, lo + float64(rapid.IntRange(1, 3000).Draw(t, "rw"))
	}
}

func genC17(t *rapid.T) *CaseC17 {
	c := &CaseC17{Forward: rapid.Bool().Draw(t, "forward")}
	mn, mx := genRange(t)
	c.Min, c.Max = F64(mn), F64(mx)
	c.Z = genZoom(t, "Z", 0, 35)
	cell := (mx - mn) / math.Ldexp(1, int(c.Z))
	if c.Forward {
		c.Spatial = rapid.IntRange(0, 3).Draw(t, "spatial") == 0
		// choose the voxel zoom so that the voxel is at most ~4096 cells tall, then place it
		minV := int64(0)
		for minV < 35 && math.Ldexp(1, int(25-minV)) > 4096*cell {
			minV++
		}
		c.V = rapid.Int64Range(minV, 35).Draw(t, "v")
		if rapid.Bool().Draw(t, "nearMinV") {
			c.V = clamp64(minV+rapid.Int64Range(0, 6).Draw(t, "dv"), 0, 35)
		}
		if c.Spatial && c.V > 31 {
			c.V = 31
			if c.V < minV {
				c.Spatial = false
				c.V = minV
			}
		}
		if c.Spatial && c.V < 1 {
			c.V = 1
		}
		res := math.Ldexp(1, int(25-c.V))
		m := int64(1) << uint(c.V)
		switch rapid.IntRange(0, 4).Draw(t, "place") {
		case 0: // around the bottom of the range
			c.F = clamp64(int64(math.Floor(mn/res))+rapid.Int64Range(-2, 2).Draw(t, "df"), -m, m-1)
		case 1: // around the top of the range
			c.F = clamp64(int64(math.Floor(mx/res))+rapid.Int64Range(-2, 2).Draw(t, "df"), -m, m-1)
		case 2: // inside
			lo, hi := clamp64(int64(math.Floor(mn/res)), -m, m-1), clamp64(int64(math.Floor(mx/res)), -m, m-1)
			c.F = rapid.Int64Range(lo, hi).Draw(t, "f")
		default:
			c.F = genF(t, "f", c.V)
		}
		// bound the run length computed from the reference before the library is ever called
		for c.Z > 0 && c17Run(c) > 4096 {
			c.Z--
		}
		if !c.Spatial && rapid.IntRange(0, 2).Draw(t, "list") == 0 {
			// other voxels of the same column: parts of the main voxel at its ends, its parent, neighbours, copies
			for i := rapid.IntRange(1, 6).Draw(t, "nOthers"); i > 0; i-- {
				k := rapid.Int64Range(1, 4).Draw(t, "ok")
				var o [2]int64
				switch rapid.IntRange(0, 5).Draw(t, "okind") {
				case 0: // lowest descendant
					o = [2]int64{c.V + k, c.F << uint(k)}
				case 1: // highest descendant
					o = [2]int64{c.V + k, ((c.F + 1) << uint(k)) - 1}
				case 2: // ancestor
					o = [2]int64{c.V - k, c.F >> uint(k)}
				case 3:
					o = [2]int64{c.V, c.F + rapid.Int64Range(-6, 6).Draw(t, "odf")}
				case 4: // a descendant somewhere inside
					o = [2]int64{c.V + k, (c.F << uint(k)) + rapid.Int64Range(0, (1<<uint(k))-1).Draw(t, "oin")}
				default:
					o = [2]int64{c.V, c.F}
				}
				if o[0] < 0 || o[0] > 35 || o[1] < -(int64(1)<<uint(o[0])) || o[1] >= int64(1)<<uint(o[0]) {
					continue
				}
				oc := *c
				oc.V, oc.F, oc.Others = o[0], o[1], nil
				if c17Run(&oc) > 4096 {
					continue
				}
				c.Others = append(c.Others, o)
			}
			c.MainFirst = rapid.IntRange(0, 3).Draw(t, "mainFirst") == 0
		}
		return c
	}
	// backward
	n := int64(1) << uint(c.Z)
	c.K = genIndex(t, "k", 0, n-1)
	maxOut := int64(35)
	for maxOut > 0 && cell/math.Ldexp(1, int(25-maxOut)) > 4096 {
		maxOut--
	}
	c.OutV = rapid.Int64Range(0, maxOut).Draw(t, "outV")
	if rapid.Bool().Draw(t, "nearMax") {
		c.OutV = clamp64(maxOut-rapid.Int64Range(0, 6).Draw(t, "dOut"), 0, 35)
	}
	for c.OutV > 0 && c17Run(c) > 4096 {
		c.OutV--
	}
	c.Reuse = genReuse(t)
	if rapid.IntRange(0, 2).Draw(t, "twin") == 1 {
		c.Twin = rapid.SampledFrom([]int64{-8, -4, -2, -1, 1, 2, 4, 8}).Draw(t, "twinShift")
		c.TwinFirst = rapid.Bool().Draw(t, "twinFirst")
	}
	return c
}

// c17Run is the reference run length of the case (number of vertical IDs the library has to produce).
func c17Run(c *CaseC17) int64 {
	mn, mx := c.Min.V(), c.Max.V()
	if c.Forward {
		res := math.Ldexp(1, int(25-c.V))
		lo, hi := bitCell(float64(c.F)*res, mn, mx, c.Z), bitCell(float64(c.F+1)*res, mn, mx, c.Z)
		return hi.Index - lo.Index + 2
	}
	cell := (mx - mn) / math.Ldexp(1, int(c.Z))
	return int64(math.Min(cell/math.Ldexp(1, int(25-c.OutV)), 1e15)) + 2
}

// bitCell returns the cell of the 2^Z-fold subdivision of [min,max) containing altitude a (clamped),
// with a tolerance band at cell borders: Index is the exact cell, and any cell of [Index-?, Index+?] that the
// altitude reaches when moved by the band is acceptable (NearEdge / Alt describe that range: Alt is its far end).
type cellRange struct {
	Index  int64 // exact (clamped) cell
	Lo, Hi int64 // acceptable cells: those containing a-band .. a+band
}

func (r cellRange) ok(got int64) bool { return got >= r.Lo && got <= r.Hi }

func bitCell(a, mn, mx float64, Z int64) cellRange {
	ra, rmn, rmx := new(big.Rat), new(big.Rat), new(big.Rat)
	ra.SetFloat64(a)
	rmn.SetFloat64(mn)
	rmx.SetFloat64(mx)
	w := new(big.Rat).Sub(rmx, rmn)
	n := new(big.Int).Lsh(big.NewInt(1), uint(Z))
	last := new(big.Int).Sub(n, big.NewInt(1))
	clampI := func(v *big.Int) int64 {
		if v.Sign() < 0 {
			return 0
		}
		if v.Cmp(last) > 0 {
			return last.Int64()
		}
		return v.Int64()
	}
	cellOf := func(alt *big.Rat) int64 {
		pos := new(big.Rat).Sub(alt, rmn)
		pos.Quo(pos, w)
		pos.Mul(pos, new(big.Rat).SetInt(n))
		return clampI(ratFloorInt(pos))
	}
	// band: |border - a| <= (|min|+|max|+|a|) * 2^-46 (Z <= 35 float halvings of values of that magnitude).
	// No band when the range is dyadic (max-min a power of two and min a multiple of the cell size): every halving
	// is exact in float64 there, so an altitude exactly on a border must fall into the upper cell ([min,max) is half open).
	bw := (math.Abs(mn) + math.Abs(mx) + math.Abs(a)) * 0x1p-46
	if fr, ex := math.Frexp(mx - mn); fr == 0.5 && mx-mn > 0 {
		cell := math.Ldexp(1, ex-1-int(Z))
		if cell >= 0x1p-40 && math.Mod(mn, cell) == 0 && math.Abs(mn) < 0x1p40 && math.Abs(mx) < 0x1p40 {
			bw = 0
		}
	}
	band := new(big.Rat)
	band.SetFloat64(bw)
	res := cellRange{Index: cellOf(ra)}
	res.Lo = cellOf(new(big.Rat).Sub(ra, band))
	res.Hi = cellOf(new(big.Rat).Add(ra, band))
	return res
}

func ratFloorInt(r *big.Rat) *big.Int {
	q, m := new(big.Int), new(big.Int)
	q.DivMod(r.Num(), r.Denom(), m)
	return q
}

func classifyC17(c *CaseC17) (bool, []string) {
	var cl []string
	nt := false
	mn, mx := c.Min.V(), c.Max.V()
	_, fr := math.Frexp(mx - mn)
	dyadic := math.Ldexp(1, fr-1) == mx-mn && math.Mod(mn, math.Ldexp(1, fr-1-20)) == 0
	if !dyadic {
		nt = true
		cl = append(cl, "non-dyadic-range")
	} else {
		cl = append(cl, "dyadic-range")
	}
	if c.Forward {
		cl = append(cl, "forward")
		res := math.Ldexp(1, int(25-c.V))
		bot, top := float64(c.F)*res, float64(c.F+1)*res
		switch {
		case top < mn || bot >= mx:
			cl = append(cl, "voxel-outside-range")
		case bot < mn || top > mx:
			nt = true
			cl = append(cl, "voxel-straddles-range-end")
		default:
			cl = append(cl, "voxel-inside-range")
		}
		lo, hi := bitCell(bot, mn, mx, c.Z), bitCell(top, mn, mx, c.Z)
		if hi.Index-lo.Index >= 2 {
			nt = true
			cl = append(cl, "run>=3")
		}
		if c.Spatial {
			cl = append(cl, "spatial-api")
		}
		if len(c.Others) > 0 {
			nt = true
			cl = append(cl, "several-voxels-of-one-column")
		}
	} else {
		cl = append(cl, "backward")
		cell := (mx - mn) / math.Ldexp(1, int(c.Z))
		if cell/math.Ldexp(1, int(25-c.OutV)) >= 2 {
			nt = true
			cl = append(cl, "run>=3")
		}
	}
	return nt, cl
}

func checkRun(fl *Fails, kind, desc string, got []int64, lo, hi cellRange) {
	if len(got) == 0 {
		fl.Add(kind+"-empty", "%s: no vertical IDs", desc)
		return
	}
	mn, mx := got[0], got[0]
	seen := map[int64]struct{}{}
	for _, g := range got {
		if g < mn {
			mn = g
		}
		if g > mx {
			mx = g
		}
		if _, dup := seen[g]; dup {
			fl.Add(kind+"-duplicate", "%s: vertical ID %d appears twice in %v", desc, g, got)
			return
		}
		seen[g] = struct{}{}
	}
	if int64(len(seen)) != mx-mn+1 {
		fl.Add(kind+"-gap", "%s: vertical IDs %v are not a contiguous run", desc, got)
	}
	if !lo.ok(mn) {
		fl.Add(kind+"-low-end", "%s: run starts at %d, the cell containing the bottom altitude is %d", desc, mn, lo.Index)
	}
	if !hi.ok(mx) {
		fl.Add(kind+"-high-end", "%s: run ends at %d, the cell containing the top altitude is %d", desc, mx, hi.Index)
	}
}

// c17Wide: one voxel that expands to 4^Wide quadkeys x several vertical cells (tens of thousands of pairs and more)
// in the height-range form: repeating it or adding one of its descendants must neither repeat a pair nor change the set.
func c17Wide(c *CaseC17, fl *Fails) {
	mn, mx := c.Min.V(), c.Max.V()
	if c.Wide > 9 || c17Run(c) > 64 {
		return
	}
	a := ref.Box{H: 10, X: 500, Y: 300, V: c.V, F: c.F}
	kid := ref.Box{H: 11, X: 1001, Y: 600, V: c.V + 1, F: c.F * 2}
	conv := func(ids []string) (map[[2]int64]int, error) {
		gs, err := transform.ConvertExtendedSpatialIDsToQuadkeysAndVerticalIDs(ids, 10+c.Wide, c.Z, mx, mn)
		if err != nil {
			return nil, err
		}
		out := map[[2]int64]int{}
		for _, g := range gs {
			for _, p := range g.InnerIDList() {
				out[p]++
			}
		}
		return out, nil
	}
	desc := jsonStr(c)
	single, err := conv([]string{a.Ext()})
	if err != nil {
		fl.Add("forward-error", "%s: %v", desc, err)
		return
	}
	Count("c17_wide_pairs", int64(len(single)))
	for _, ids := range [][]string{{a.Ext()}, {a.Ext(), a.Ext()}, {a.Ext(), kid.Ext()}, {kid.Ext(), a.Ext(), kid.Ext()}} {
		got, err := conv(ids)
		if err != nil {
			fl.Add("forward-error", "%s: list %v: %v", desc, ids, err)
			return
		}
		twice, missing := 0, 0
		for p, n := range got {
			if n > 1 {
				twice++
			}
			if _, ok := single[p]; !ok {
				missing++
			}
		}
		if twice > 0 {
			fl.Add("forward-pair-twice", "%s: converting %v at horizontal zoom %d: %d of %d pairs are reported more than once", desc, ids, 10+c.Wide, twice, len(got))
			return
		}
		if missing > 0 || len(got) != len(single) {
			fl.Add("forward-list-union", "%s: converting %v at horizontal zoom %d gives %d pairs (%d not among those of the voxel alone), the voxel alone gives %d", desc, ids, 10+c.Wide, len(got), missing, len(single))
			return
		}
	}
}

func checkC17(c *CaseC17, fl *Fails) {
	if c.Forward && c.Wide > 0 {
		c17Wide(c, fl)
		return
	}
	mn, mx := c.Min.V(), c.Max.V()
	if c17Run(c) > 10000 {
		return // unbounded by construction only in hand-written replay files
	}
	desc := jsonStr(c)
	if c.Forward {
		res := math.Ldexp(1, int(25-c.V))
		bot, top := float64(c.F)*res, float64(c.F+1)*res
		lo, hi := bitCell(bot, mn, mx, c.Z), bitCell(top, mn, mx, c.Z)
		h := int64(5)
		x, y := int64(19), int64(7)
		var groups []*object.FromExtendedSpatialIDToQuadkeyAndVerticalID
		var err, errRev error
		if c.Spatial {
			h = c.V
			x, y = (int64(1)<<uint(h))-1, 0
			id := strconv.FormatInt(h, 10) + "/" + strconv.FormatInt(c.F, 10) + "/" + strconv.FormatInt(x, 10) + "/" + strconv.FormatInt(y, 10)
			groups, err = transform.ConvertSpatialIDsToQuadkeysAndVerticalIDs([]string{id}, h, c.Z, mx, mn)
			_, errRev = transform.ConvertSpatialIDsToQuadkeysAndVerticalIDs([]string{id}, h, c.Z, mn, mx)
		} else {
			id := ref.Box{H: h, X: x, Y: y, V: c.V, F: c.F}.Ext()
			groups, err = transform.ConvertExtendedSpatialIDsToQuadkeysAndVerticalIDs([]string{id}, h, c.Z, mx, mn)
			_, errRev = transform.ConvertExtendedSpatialIDsToQuadkeysAndVerticalIDs([]string{id}, h, c.Z, mn, mx)
		}
		if errRev == nil {
			fl.Add("forward-missing-error", "%s: maxHeight < minHeight accepted", desc)
		}
		if err != nil {
			fl.Add("forward-error", "%s: %v", desc, err)
			return
		}
		var got []int64
		qk := ref.Quadkey(h, x, y)
		for _, g := range groups {
			if g.QuadkeyZoom() != h || g.VerticalZoom() != c.Z || g.MaxHeight() != mx || g.MinHeight() != mn {
				fl.Add("forward-group-fields", "%s: group reports %d/%d %v/%v", desc, g.QuadkeyZoom(), g.VerticalZoom(), g.MaxHeight(), g.MinHeight())
			}
			for _, p := range g.InnerIDList() {
				if p[0] != qk {
					fl.Add("forward-quadkey", "%s: quadkey %d, expected %d", desc, p[0], qk)
				}
				got = append(got, p[1])
			}
		}
		// the returned structures belong to the caller: a later conversion must not change them
		oc := *c
		oc.F = c.F - 3
		if len(groups) > 0 && c17Run(&oc) <= 4096 {
			other := ref.Box{H: h, X: x, Y: y, V: c.V, F: c.F - 3}.Ext()
			if c.Spatial {
				other = strconv.FormatInt(h, 10) + "/" + strconv.FormatInt(c.F-3, 10) + "/" + strconv.FormatInt(x, 10) + "/" + strconv.FormatInt(y, 10)
				_, _ = transform.ConvertSpatialIDsToQuadkeysAndVerticalIDs([]string{other}, h, c.Z, mx, mn)
			} else {
				_, _ = transform.ConvertExtendedSpatialIDsToQuadkeysAndVerticalIDs([]string{other}, h, c.Z, mx, mn)
			}
			var after []int64
			for _, g := range groups {
				for _, p := range g.InnerIDList() {
					after = append(after, p[1])
				}
			}
			same := len(after) == len(got)
			for i := range after {
				same = same && after[i] == got[i]
			}
			if !same {
				fl.Add("result-retention", "%s: the result of the call changed after a later conversion of another voxel: %v -> %v", desc, got, after)
			}
		}
		// several voxels of one column in one call: the vertical IDs of the column are the union of the runs of the
		// voxels converted one by one (each of which is compared with the reference by its own case)
		if len(c.Others) > 0 && !c.Spatial {
			union := map[int64]struct{}{}
			for _, g := range got {
				union[g] = struct{}{}
			}
			var ids []string
			okAll := true
			for _, o := range c.Others {
				oc := *c
				oc.V, oc.F, oc.Others = o[0], o[1], nil
				if c17Run(&oc) > 10000 {
					okAll = false
					break
				}
				id := ref.Box{H: h, X: x, Y: y, V: o[0], F: o[1]}.Ext()
				ids = append(ids, id)
				gs, e := transform.ConvertExtendedSpatialIDsToQuadkeysAndVerticalIDs([]string{id}, h, c.Z, mx, mn)
				if e != nil {
					okAll = false
					break
				}
				for _, g := range gs {
					for _, p := range g.InnerIDList() {
						union[p[1]] = struct{}{}
					}
				}
			}
			if okAll {
				main := ref.Box{H: h, X: x, Y: y, V: c.V, F: c.F}.Ext()
				if c.MainFirst {
					ids = append([]string{main}, ids...)
				} else {
					ids = append(ids, main)
				}
				gs, e := transform.ConvertExtendedSpatialIDsToQuadkeysAndVerticalIDs(ids, h, c.Z, mx, mn)
				if e != nil {
					fl.Add("forward-list-error", "%s: list %v: %v", desc, ids, e)
				} else {
					gotL := map[int64]int{}
					for _, g := range gs {
						for _, p := range g.InnerIDList() {
							if p[0] != qk {
								fl.Add("forward-quadkey", "%s: list %v: quadkey %d, expected %d", desc, ids, p[0], qk)
							}
							gotL[p[1]]++
						}
					}
					var missing, extra, twice []int64
					for k := range union {
						if gotL[k] == 0 {
							missing = append(missing, k)
						}
					}
					for k, n := range gotL {
						if _, ok := union[k]; !ok {
							extra = append(extra, k)
						}
						if n > 1 {
							twice = append(twice, k)
						}
					}
					if len(missing)+len(extra)+len(twice) > 0 {
						sort.Slice(missing, func(i, j int) bool { return missing[i] < missing[j] })
						fl.Add("forward-list-union", "%s: converting %v in one call: vertical IDs missing %v, unexpected %v, repeated %v compared with the voxels converted one by one", desc, ids, missing, extra, twice)
					}
				}
			}
		}
		last := (int64(1) << uint(c.Z)) - 1
		for _, g := range got {
			if g < 0 || g > last {
				fl.Add("forward-out-of-range", "%s: vertical ID %d outside 0..2^%d-1", desc, g, c.Z)
				return
			}
		}
		checkRun(fl, "forward", desc, got, lo, hi)
		return
	}
	// backward
	q := mkQK(c.Reuse, 6, 2914, c.Z, c.K, mx, mn)
	ids, err := transform.ConvertQuadkeysAndVerticalIDsToExtendedSpatialIDs([]*object.QuadkeyAndVerticalID{q}, 6, c.OutV)
	qr := object.NewQuadkeyAndVerticalID(6, 2914, c.Z, c.K, mn, mx)
	if _, errRev := transform.ConvertQuadkeysAndVerticalIDsToExtendedSpatialIDs([]*object.QuadkeyAndVerticalID{qr}, 6, c.OutV); errRev == nil {
		fl.Add("backward-missing-error", "%s: maxHeight < minHeight accepted", desc)
	}
	if err != nil {
		fl.Add("backward-error", "%s: %v", desc, err)
		return
	}
	if c.Twin != 0 {
		// two pair objects in one call: the result is the union of the two single conversions
		shift := (mx - mn) / 4 * float64(c.Twin)
		tmn, tmx := mn+shift, mx+shift
		tc := *c
		tc.Min, tc.Max, tc.Twin = F64(tmn), F64(tmx), 0
		if tmx-tmn == mx-mn && c17Run(&tc) <= 10000 {
			tw := object.NewQuadkeyAndVerticalID(6, 2914, c.Z, c.K, tmx, tmn)
			single, e1 := transform.ConvertQuadkeysAndVerticalIDsToExtendedSpatialIDs([]*object.QuadkeyAndVerticalID{tw}, 6, c.OutV)
			list := []*object.QuadkeyAndVerticalID{q, tw}
			if c.TwinFirst {
				list = []*object.QuadkeyAndVerticalID{tw, q}
			}
			both, e2 := transform.ConvertQuadkeysAndVerticalIDsToExtendedSpatialIDs(list, 6, c.OutV)
			if e1 == nil && e2 == nil {
				want := map[string]struct{}{}
				for _, s := range ids {
					want[s] = struct{}{}
				}
				for _, s := range single {
					want[s] = struct{}{}
				}
				if miss, extra := diffSets(both, want); len(miss)+len(extra) > 0 {
					fl.Add("backward-list-union", "%s: converting the ID together with one of the height range [%v,%v) (same width, other offset) in one call: missing %v, unexpected %v compared with the two single conversions", desc, tmn, tmx, trunc(miss, 6), trunc(extra, 6))
				}
			} else if (e1 == nil) != (e2 == nil) {
				fl.Add("backward-list-error", "%s: twin range [%v,%v): single conversion error %v, list conversion error %v", desc, tmn, tmx, e1, e2)
			}
		}
	}
	var got []int64
	for _, id := range ids {
		b, perr := ref.ParseExt(id)
		if perr != nil {
			fl.Add("backward-format", "%s: %v", desc, perr)
			return
		}
		if b.H != 6 || b.X != 24 || b.Y != 53 || b.V != c.OutV {
			fl.Add("backward-fields", "%s: id %s, expected 6/24/53/%d/f", desc, id, c.OutV)
		}
		got = append(got, b.F)
	}
	// altitude interval of the bit cell, in exact arithmetic from the float inputs
	rmn, rmx := new(big.Rat), new(big.Rat)
	rmn.SetFloat64(mn)
	rmx.SetFloat64(mx)
	w := new(big.Rat).Sub(rmx, rmn)
	w.Quo(w, new(big.Rat).SetInt(new(big.Int).Lsh(big.NewInt(1), uint(c.Z))))
	loAlt := new(big.Rat).Mul(w, big.NewRat(c.K, 1))
	loAlt.Add(loAlt, rmn)
	hiAlt := new(big.Rat).Mul(w, big.NewRat(c.K+1, 1))
	hiAlt.Add(hiAlt, rmn)
	la, _ := loAlt.Float64()
	ha, _ := hiAlt.Float64()
	band := (math.Abs(mn) + math.Abs(mx)) * 0x1p-40
	toRange := func(r ref.IndexResult) cellRange {
		cr := cellRange{Index: r.Index, Lo: r.Index, Hi: r.Index}
		if r.NearEdge {
			cr.Lo, cr.Hi = min64(r.Index, r.Alt), max64(r.Index, r.Alt)
		}
		return cr
	}
	checkRun(fl, "backward", desc, got, toRange(ref.AltIndex(la, c.OutV, band)), toRange(ref.AltIndex(ha, c.OutV, band)))
}

func sweepC17(tier string, emit func(*CaseC17)) {
	// one voxel expanding to 4^6 .. 4^8 (thorough 4^9) quadkeys in the height-range form, repeated / with a descendant
	for _, w := range []int64{6, 8, 9} {
		if tier == "quick" && w != 8 {
			continue
		}
		emit(&CaseC17{Forward: true, V: 20, F: 1, Z: 7, Min: -256, Max: 256, Wide: w})
		if tier != "quick" {
			emit(&CaseC17{Forward: true, V: 19, F: -2, Z: 6, Min: -256, Max: 256, Wide: w})
		}
	}
	ranges := [][2]float64{{-256, 256}, {0, 1024}, {-1, 1}, {-8, 24}, {0, 1}}
	for _, r := range ranges {
		for Z := int64(0); Z <= 4; Z++ {
			for v := int64(20); v <= 27; v++ {
				res := math.Ldexp(1, int(25-v))
				lo, hi := int64(math.Floor(r[0]/res))-2, int64(math.Floor(r[1]/res))+2
				step := int64(1)
				if hi-lo > 80 {
					step = (hi - lo) / 80
				}
				for f := lo; f <= hi; f += step {
					c := &CaseC17{Forward: true, V: v, F: f, Z: Z, Min: F64(r[0]), Max: F64(r[1])}
					if (float64(1)*res)/((r[1]-r[0])/math.Ldexp(1, int(Z))) <= 4096 {
						emit(c)
					}
				}
			}
			for k := int64(0); k < 1<<uint(Z); k++ {
				for _, outV := range []int64{20, 24, 25, 26, 28} {
					if ((r[1]-r[0])/math.Ldexp(1, int(Z)))/math.Ldexp(1, int(25-outV)) <= 4096 {
						emit(&CaseC17{Forward: false, Z: Z, K: k, OutV: outV, Min: F64(r[0]), Max: F64(r[1])})
					}
				}
			}
		}
	}
}

func init() {
	register(PropT[CaseC17]{
		ID:          "C17",
		Rule:        "rapid: height range (symmetric / asymmetric dyadic, documented example, non-dyadic float, integer) x subdivision zoom 0..35; forward: voxel zoom chosen so that the run has <=~4096 cells, voxel placed around the bottom / top of the range, inside it, or anywhere (outside: clamped), extended or single-zoom API; backward: bit index (edge-weighted) x output zoom bounded the same way. Both directions are also called with the heights swapped (error clause). Sweep: 5 dyadic ranges x Z<=4 x voxel zooms 20..27 across the range, all bit cells x 5 output zooms. Non-trivial: non-dyadic range, or voxel straddling a range end, or run length>=3.",
		Assumptions: []string{"oracle: exact rational subdivision index floor((a-min)2^Z/(max-min)) clamped to 0..2^Z-1; either neighbouring cell accepted when the altitude is within (|min|+|max|+|a|)*2^-46 of a cell border (no band at all for dyadic ranges, where the halving is exact) (Z<=35 float halvings)", "backward: ends compared with floor(alt/res) of the cell's exact altitude bounds with the same band", "run length bounded to ~4096 by construction"},
		Gen:         genC17, Check: checkC17, Classify: classifyC17, Sweep: sweepC17,
		Related: func(c *CaseC17) []*CaseC17 {
			var out []*CaseC17
			add := func(m func(*CaseC17)) {
				d := *c
				m(&d)
				if d.V >= 0 && d.V <= 35 && d.Z >= 0 && d.Z <= 35 && d.OutV >= 0 && d.OutV <= 35 && d.K >= 0 && d.K < int64(1)<<uint(d.Z) && d.Max.V() > d.Min.V() && (!d.Spatial || (d.V >= 1 && d.V <= 31)) && c17Run(&d) <= 4096 {
					out = append(out, &d)
				}
			}
			add(func(d *CaseC17) { d.F++ })
			add(func(d *CaseC17) { d.V++ })
			add(func(d *CaseC17) { d.Z-- })
			add(func(d *CaseC17) { d.K++ })
			add(func(d *CaseC17) { d.Max = F64(d.Max.V() * 2) })
			return out
		},
		SweepScopes: func(tier string) []string {
			return []string{"5 dyadic ranges x Z<=4 x voxel zooms 20..27 x up to 80 voxels across the range (forward)", "5 dyadic ranges x Z<=4 x every bit cell x output zooms {20,24,25,26,28} (backward, exhaustive over the cells)"}
		},
	})
}
