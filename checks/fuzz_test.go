package checks

import (
	"os"
	"testing"

	"pgregory.net/rapid"
)

// FuzzC15 is the native (coverage-guided) fuzz target of property C15: a raw string is handed, as an ID, to
// every ID-taking exported function. Oracle = the one of the generated check (checkC15Malformed): no panic, and an
// error whenever the string is not a well-formed ID. Well-formed strings are skipped (the property excludes
// out-of-range zoom fields inside well-formed IDs, and valid IDs are the subject of the other properties).
//
// It only runs in the thorough tier (./check C15 --tier thorough); a failing input is written as a JSON replay
// file (VERIF_REPLAY_DIR) by the worker itself, so that `./check C15 --replay <file>` reproduces it without the fuzzer.
func FuzzC15(f *testing.F) {
	seeds := []string{"", "/", "////", "1/0/0/1", "1/0/0/1/0/0", "a/b/c/d/e", " 1/0/0/1/0", "1/0/0/1/0 ", "3/a/1/1", "1//0/1/0", "9223372036854775808/0/0/1/0",
		"1/0/0/1/-9223372036854775809", "1/0/0/1/1e3", "1/0/0/1/0x1", "１/0/0/1/0", "1/0/0/1/0\x00", "+1/+0/+0/+1/+0", "1/0/0/1/0/", "/1/0/0/1/0", "1/0/0", "5/1/2", "-/-/-/-/-", "1/0/0/1/٣"}
	for i, s := range seeds {
		f.Add(s, uint8(i))
		f.Add(s, uint8(i+7))
	}
	p := registry["C15"]
	f.Fuzz(func(t *testing.T, s string, which uint8) {
		tg := c15IDTargets[int(which)%len(c15IDTargets)]
		if wellFormed(s, tg.arity) || len(s) > 200 {
			t.Skip()
		}
		if !tg.parses && len(splitSlash(s)) == tg.arity {
			t.Skip()
		}
		valid := "3/1/1/3/1"
		if tg.arity == 4 {
			valid = "3/1/1/1"
		}
		c := &CaseC15{Fn: tg.name, Kind: "malformed-id", Edit: "fuzz", Z: []int64{3, 3}}
		switch {
		case tg.single && tg.lists == 2:
			c.IDs, c.IDs2, c.Bad = []string{valid}, []string{s}, 1
			if which&0x80 != 0 {
				c.IDs, c.IDs2, c.Bad = []string{s}, []string{valid}, 0
			}
			if which&0x40 != 0 {
				c.IDs, c.IDs2, c.Bad = []string{s}, []string{s}, 0
			}
		case tg.single:
			c.IDs, c.Bad = []string{s}, 0
		case tg.lists == 2:
			c.IDs, c.IDs2, c.Bad = []string{valid, s}, []string{"3/5/5/3/-2"}, 1
			if tg.arity == 4 {
				c.IDs2 = []string{"3/-2/5/5"}
			}
		default:
			c.IDs, c.Bad = []string{valid, s}, 1
			if which&0x80 != 0 {
				c.IDs, c.Bad = []string{s, valid}, 0
			}
		}
		st := newStats("C15", "fuzz")
		if fails := runCheck(p, st, c); len(fails) > 0 {
			path := writeReplay(p, st, c, fails, "fuzz-"+os.Getenv("VERIF_TAG"))
			t.Fatalf("property C15 violated (%s): %s [replay %s]", fails[0].Kind, fails[0].Msg, path)
		}
	})
}

func splitSlash(s string) []string {
	var out []string
	start := 0
	for i := 0; i <= len(s); i++ {
		if i == len(s) || s[i] == '/' {
			out = append(out, s[start:i])
			start = i + 1
		}
	}
	return out
}

// FuzzProp is the coverage-guided variant of any property's generated check (thorough tier): Go's native fuzzer
// mutates a byte string which rapid decodes into the draws of the property's own generator (rapid.MakeFuzz), so the
// cases are exactly the ones the generator can produce and the oracle is the property's check, but the search is
// steered by branch coverage of the library (size-threshold paths, rarely taken branches). VERIF_PROP selects the
// property. A failing case is written as a JSON replay file by the worker itself.
func FuzzProp(f *testing.F) {
	id := os.Getenv("VERIF_PROP")
	p := registry[id]
	if p == nil {
		f.Skip("VERIF_PROP not set")
	}
	// seed corpus: fixed pseudo-random draw streams of several lengths (a linear congruential sequence, not a
	// run-time random source: the corpus is the same on every run)
	x := uint64(0x9E3779B97F4A7C15)
	for _, n := range []int{64, 256, 1024, 4096, 16384} {
		for k := 0; k < 6; k++ {
			b := make([]byte, n)
			for i := range b {
				x = x*6364136223846793005 + 1442695040888963407
				b[i] = byte(x >> 56)
			}
			f.Add(b)
		}
	}
	f.Fuzz(rapid.MakeFuzz(func(t *rapid.T) {
		c := p.gen(t)
		st := newStats(id, "fuzz")
		if fails := runCheck(p, st, c); len(fails) > 0 {
			path := writeReplay(p, st, c, fails, "fuzz-"+os.Getenv("VERIF_TAG"))
			t.Fatalf("property %s violated (%s): %s [replay %s]", id, fails[0].Kind, fails[0].Msg, path)
		}
	}))
}
