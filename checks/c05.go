package checks

import (
	"github.com/trajectoryjp/spatial_id_go/v4/detector"
	"pgregory.net/rapid"

	"verif/ref"
)

type CaseC05 struct {
	A, B    []ref.Box
	Spatial bool  // single-zoom (radix tree) API: H == V >= 1 and -2^(z-1) <= f < 2^(z-1)
	Spell   int64 `json:",omitempty"`
	Each    bool  `json:",omitempty"` // sweep: EVERY entry of the (long) first list is looked up again, not a sample
}

// spatialValid: the documented domain of the single-zoom overlap check (altitude within +-2^24 m).
func spatialValid(b ref.Box) bool {
	if b.H != b.V || b.H < 1 || b.H > 35 {
		return false
	}
	n := int64(1) << uint(b.H)
	half := n / 2
	return b.X >= 0 && b.X < n && b.Y >= 0 && b.Y < n && b.F >= -half && b.F < half
}

func axisMap(t *rapid.T, label string, from, i, to int64) int64 {
	if to >= from {
		d := uint(to - from)
		return i<<d + rapid.Int64Range(0, (1<<d)-1).Draw(t, label)
	}
	return ref.Ancestor(i, from-to)
}

// relate maps b to other zooms axis by axis (descendant or ancestor), then perturbs a subset of
// the axes by +-1 so that near misses (overlap on two axes only) are frequent.
func relate(t *rapid.T, b ref.Box, spatial bool) ref.Box {
	var r ref.Box
	if spatial {
		z := clamp64(b.H+rapid.Int64Range(-4, 4).Draw(t, "dz"), 1, 35)
		r.H, r.V = z, z
	} else {
		r.H = clamp64(b.H+rapid.Int64Range(-4, 4).Draw(t, "dh"), 0, 35)
		r.V = clamp64(b.V+rapid.Int64Range(-4, 4).Draw(t, "dv"), 0, 35)
	}
	r.X = axisMap(t, "mx", b.H, b.X, r.H)
	r.Y = axisMap(t, "my", b.H, b.Y, r.H)
	r.F = axisMap(t, "mf", b.V, b.F, r.V)
	switch rapid.IntRange(0, 6).Draw(t, "perturb") {
	case 6:
		// an index that differs in one high bit only (packing / truncation of indices into fewer bits)
		k := uint(rapid.IntRange(3, 34).Draw(t, "bit"))
		switch rapid.IntRange(0, 2).Draw(t, "bitAxis") {
		case 0:
			if int64(k) < r.H {
				r.X ^= int64(1) << k
			}
		case 1:
			if int64(k) < r.H {
				r.Y ^= int64(1) << k
			}
		default:
			if int64(k) < r.V-1 {
				r.F ^= int64(1) << k
			}
		}
	case 0:
		r.X += rapid.SampledFrom([]int64{-1, 1}).Draw(t, "px")
	case 1:
		r.Y += rapid.SampledFrom([]int64{-1, 1}).Draw(t, "py")
	case 2:
		r.F += rapid.SampledFrom([]int64{-1, 1}).Draw(t, "pf")
	}
	ok := r.Valid()
	if spatial {
		ok = spatialValid(r)
	}
	if !ok {
		// fall back to the unperturbed relative, or the box itself
		r.X = clamp64(r.X, 0, (1<<uint(r.H))-1)
		r.Y = clamp64(r.Y, 0, (1<<uint(r.H))-1)
		if spatial {
			half := int64(1) << uint(r.V-1)
			r.F = clamp64(r.F, -half, half-1)
		} else {
			m := int64(1) << uint(r.V)
			r.F = clamp64(r.F, -m, m-1)
		}
	}
	return r
}

func genSpatialBox(t *rapid.T, label string) ref.Box {
	z := genZoom(t, label+"_z", 1, 35)
	n := int64(1) << uint(z)
	half := n / 2
	var f int64
	switch rapid.IntRange(0, 3).Draw(t, label+"_fk") {
	case 0:
		f = clamp64(rapid.SampledFrom([]int64{-half, -half + 1, -2, -1, 0, 1, half - 2, half - 1}).Draw(t, label+"_f"), -half, half-1)
	case 1:
		f = rapid.Int64Range(-half, -1).Draw(t, label+"_f")
	default:
		f = rapid.Int64Range(-half, half-1).Draw(t, label+"_f")
	}
	return ref.Box{H: z, X: genIndex(t, label+"_x", 0, n-1), Y: genIndex(t, label+"_y", 0, n-1), V: z, F: f}
}

func genC05(t *rapid.T) *CaseC05 {
	c := &CaseC05{Spatial: rapid.Bool().Draw(t, "spatial")}
	na := rapid.IntRange(0, 4).Draw(t, "na")
	nb := rapid.IntRange(0, 4).Draw(t, "nb")
	if rapid.IntRange(0, 2).Draw(t, "pair") > 0 {
		na, nb = 1, 1
	}
	c.Spell = genSpell(t)
	long := rapid.IntRange(0, 119).Draw(t, "long") == 0
	if long {
		// long lists: implementations may switch strategy beyond a size threshold
		na = rapid.SampledFrom([]int{33, 64, 65, 100, 129}).Draw(t, "naLong")
		nb = rapid.IntRange(1, 3).Draw(t, "nbLong")
	}
	for i := 0; i < na; i++ {
		if long && i > 0 {
			// same-zoom variants of the first entry that differ in one bit of one index
			b := c.A[0]
			k := uint(rapid.IntRange(0, 34).Draw(t, "vbit"))
			switch rapid.IntRange(0, 2).Draw(t, "vaxis") {
			case 0:
				if int64(k) < b.H {
					b.X ^= int64(1) << k
				}
			case 1:
				if int64(k) < b.H {
					b.Y ^= int64(1) << k
				}
			default:
				if int64(k)+1 < b.V {
					b.F ^= int64(1) << k
				}
			}
			ok := b.Valid()
			if c.Spatial {
				ok = spatialValid(b)
			}
			if !ok {
				b = c.A[0]
			}
			c.A = append(c.A, b)
			continue
		}
		if i == 0 || rapid.Bool().Draw(t, "freshA") {
			if c.Spatial {
				c.A = append(c.A, genSpatialBox(t, "a"))
			} else {
				c.A = append(c.A, genBox(t, "a"))
			}
		} else {
			c.A = append(c.A, relate(t, c.A[0], c.Spatial))
		}
	}
	for i := 0; i < nb; i++ {
		if len(c.A) > 0 && rapid.IntRange(0, 5).Draw(t, "relB") > 0 {
			c.B = append(c.B, relate(t, c.A[rapid.IntRange(0, len(c.A)-1).Draw(t, "baseB")], c.Spatial))
		} else if c.Spatial {
			c.B = append(c.B, genSpatialBox(t, "b"))
		} else {
			c.B = append(c.B, genBox(t, "b"))
		}
	}
	return c
}

func refOverlapLists(a, b []ref.Box) bool {
	for _, x := range a {
		for _, y := range b {
			if ref.Overlap(x, y) {
				return true
			}
		}
	}
	return false
}

func classifyC05(c *CaseC05) (bool, []string) {
	var cl []string
	nt := false
	want := refOverlapLists(c.A, c.B)
	for _, a := range c.A {
		for _, b := range c.B {
			if a.H != b.H || a.V != b.V {
				if a.F < 0 || b.F < 0 {
					nt = true
					cl = append(cl, "zooms-differ,f<0")
				}
				if a.V > 25 || b.V > 25 {
					nt = true
					cl = append(cl, "zooms-differ,v>25")
				}
				if want {
					nt = true
					cl = append(cl, "zooms-differ,overlap")
				}
			}
		}
	}
	if len(c.A) == 0 || len(c.B) == 0 {
		cl = append(cl, "empty-list")
	}
	if want {
		cl = append(cl, "result-true")
	} else {
		cl = append(cl, "result-false")
	}
	if c.Spatial {
		cl = append(cl, "spatial-api")
	} else {
		cl = append(cl, "extended-api")
	}
	if len(c.A) > 1 || len(c.B) > 1 {
		cl = append(cl, "array-form")
	}
	if len(c.A) >= 33 {
		cl = append(cl, "long-list")
	}
	return nt, uniq(cl)
}

func spatialIDs(bs []ref.Box) []string {
	out := make([]string, len(bs))
	for i, b := range bs {
		out[i] = b.Spatial()
	}
	return out
}

var c05Spell int64 // spelling seed of the case being checked (checks run one case at a time)

func c05Call(spatial bool, a, b []ref.Box) (bool, error) {
	if spatial {
		return detector.CheckSpatialIdsArrayOverlap(spelledSpatial(a, c05Spell), spelledSpatial(b, c05Spell+1))
	}
	return detector.CheckExtendedSpatialIdsArrayOverlap(spelledExt(a, c05Spell), spelledExt(b, c05Spell+1))
}

func c05Pair(spatial bool, a, b ref.Box) (bool, error) {
	if spatial {
		return detector.CheckSpatialIdsOverlap(a.Spatial(), b.Spatial())
	}
	return detector.CheckExtendedSpatialIdsOverlap(a.Ext(), b.Ext())
}

// c05Tag classifies a spatial-form case for the known-finding matchers.
func c05Tag(c *CaseC05) string {
	if !c.Spatial {
		return "ext"
	}
	tag := "spatial"
	for _, b := range append(append([]ref.Box{}, c.A...), c.B...) {
		if b.H > 25 {
			tag = "spatial-z>25"
		}
	}
	for _, b := range append(append([]ref.Box{}, c.A...), c.B...) {
		if b.F == (int64(1)<<uint(b.H-1))-1 {
			return tag + "-topcell"
		}
	}
	return tag
}

func checkC05(c *CaseC05, fl *Fails) {
	c05Spell = c.Spell
	if c.Spell != 0 {
		c05Spell = c.Spell*2 + 2
	}
	want := refOverlapLists(c.A, c.B)
	desc := func() string {
		if c.Spatial {
			return "spatial " + jsonStr(spatialIDs(c.A)) + " vs " + jsonStr(spatialIDs(c.B))
		}
		return "extended " + jsonStr(boxesExt(c.A)) + " vs " + jsonStr(boxesExt(c.B))
	}
	tag := c05Tag(c)
	got, err := c05Call(c.Spatial, c.A, c.B)
	if err != nil {
		if c.Spell != 0 {
			// a library that rejects a non-canonical spelling ("+1", "007", "-0") with an error does not break the
			// property (it quantifies over valid IDs; only the canonical decimal spelling is certainly one)
			Count("spelled_input_rejected", 1)
			return
		}
		fl.Add("error-"+tag, "%s: unexpected error %v", desc(), err)
		return
	}
	if got != want {
		fl.Add("answer-"+tag, "%s: got %v, reference %v", desc(), got, want)
	}
	// symmetry
	rev, err := c05Call(c.Spatial, c.B, c.A)
	if err != nil {
		fl.Add("error-"+tag, "%s reversed: unexpected error %v", desc(), err)
	} else if rev != got {
		fl.Add("symmetry-"+tag, "%s: f(a,b)=%v but f(b,a)=%v", desc(), got, rev)
	}
	// reflexivity
	if len(c.A) > 0 {
		self, err := c05Call(c.Spatial, c.A, c.A)
		if err != nil || !self {
			fl.Add("reflexive-"+tag, "%s: f(a,a) = %v, %v", desc(), self, err)
		}
	}
	// single pair form and disjunction
	if len(c.A)*len(c.B) <= 16 || (len(c.A) > 30 && len(c.B) <= 3) {
		or := false
		for _, a := range c.A {
			for _, b := range c.B {
				r, err := c05Pair(c.Spatial, a, b)
				if err != nil {
					fl.Add("error-"+tag, "pair %s / %s: unexpected error %v", a.Ext(), b.Ext(), err)
					continue
				}
				if r != ref.Overlap(a, b) {
					fl.Add("answer-"+tag, "pair form %s vs %s: got %v, reference %v", a.Ext(), b.Ext(), r, !r)
				}
				or = or || r
			}
		}
		if !fl.Has() && or != got {
			fl.Add("disjunction-"+tag, "%s: array form %v but disjunction of pairs %v", desc(), got, or)
		}
	}
	// long lists: every single entry of the first list must be found again (nothing dropped by an internal shortcut)
	if len(c.A) >= 33 {
		// candidates: entries that differ from the first one in a high bit (>= 2^20) of an index - the ones a packed
		// or truncated internal key would confuse - at most 24 of them, plus every 16th entry
		var cand []int
		for i := len(c.A) - 1; i >= 1; i-- {
			d := (c.A[i].X ^ c.A[0].X) | (c.A[i].Y ^ c.A[0].Y) | (c.A[i].F ^ c.A[0].F)
			if (d >= 1<<20 && len(cand) < 24) || i%16 == 0 || c.Each {
				cand = append(cand, i)
			}
		}
		cand = append(cand, 0)
		for _, i := range cand {
			a := c.A[i]
			r, err := c05Call(c.Spatial, c.A, []ref.Box{a})
			if err != nil || !r {
				fl.Add("entry-lost-"+tag, "%s: entry %d (%s) of the first list does not overlap the list itself (%v, %v)", desc(), i, a.Ext(), r, err)
				break
			}
			if c.Each && i%64 != 0 {
				continue
			}
			r, err = c05Call(c.Spatial, []ref.Box{a}, c.A)
			if err != nil || !r {
				fl.Add("entry-lost-"+tag, "%s: entry %d (%s) of the second list is not found (%v, %v)", desc(), i, a.Ext(), r, err)
				break
			}
		}
	}
	// differential: both implementations on the same h = v inputs
	if c.Spatial {
		other, err := detector.CheckExtendedSpatialIdsArrayOverlap(boxesExt(c.A), boxesExt(c.B))
		if err != nil {
			fl.Add("error-ext", "extended form on %s: %v", desc(), err)
		} else if other != want {
			fl.Add("answer-ext", "extended form on %s: got %v, reference %v", desc(), other, want)
		}
	}
}

func sweepC05(tier string, emit func(*CaseC05)) {
	// a complete block of eight siblings (and of 64 grandchildren) listed twice / interleaved in the first list, probed
	// with voxels of the grandparent that lie outside the block (no pair overlaps) and inside it
	for _, z := range []int64{3, 5, 20, 26, 30} {
		par := ref.Box{H: z, X: 5, Y: 2, V: z, F: -2}
		var kids, grand []ref.Box
		for i := int64(0); i < 8; i++ {
			k := ref.Box{H: z + 1, X: par.X*2 + i&1, Y: par.Y*2 + (i>>1)&1, V: z + 1, F: par.F*2 + (i>>2)&1}
			kids = append(kids, k)
			for j := int64(0); j < 8; j++ {
				grand = append(grand, ref.Box{H: z + 2, X: k.X*2 + j&1, Y: k.Y*2 + (j>>1)&1, V: z + 2, F: k.F*2 + (j>>2)&1})
			}
		}
		outside := ref.Box{H: z + 1, X: (par.X^1)*2 + 1, Y: par.Y * 2, V: z + 1, F: par.F * 2}      // in the grandparent, not in par
		outside2 := ref.Box{H: z + 3, X: (par.X^1)*8 + 3, Y: par.Y*8 + 1, V: z + 3, F: par.F*8 + 5} // finer, same place
		inside := ref.Box{H: z + 3, X: par.X*8 + 3, Y: par.Y*8 + 1, V: z + 3, F: par.F*8 + 5}
		for _, a := range [][]ref.Box{append(append([]ref.Box{}, kids...), kids...), append(append([]ref.Box{}, grand...), grand...), append(append(append([]ref.Box{}, kids...), grand...), kids[3], kids[3])} {
			for _, b := range [][]ref.Box{{outside}, {outside2}, {inside}, {outside, outside2}} {
				emit(&CaseC05{A: a, B: b, Spatial: true})
				emit(&CaseC05{A: a, B: b})
			}
		}
	}
	// BOTH lists long (an indexed path that only starts when both sides are large), mixed vertical zooms in the first
	// list, the only overlapping pair near the front of both lists (so the pairwise scan of the library stays short)
	for _, n := range []int{2048, 2100, 4100} {
		if tier == "quick" && n != 2100 {
			continue
		}
		for _, spatial := range []bool{false, true} {
			var a, b []ref.Box
			for i := 0; i < n; i++ {
				if spatial {
					a = append(a, ref.Box{H: 20 + int64(i%2)*2, X: int64(1000 + 3*i), Y: 7, V: 20 + int64(i%2)*2, F: 3})
					b = append(b, ref.Box{H: 25, X: int64(900000 + i), Y: 40000, V: 25, F: 24})
				} else {
					a = append(a, ref.Box{H: 20, X: int64(1000 + 3*i), Y: 7, V: 20 + int64(i%2)*2, F: 3})
					b = append(b, ref.Box{H: 25, X: int64(900000 + i), Y: 40000, V: 25, F: 24})
				}
			}
			// b[0] lies inside a[1] (and in nothing else)
			a1 := a[1]
			b[0] = ref.Box{H: 25, X: a1.X << uint(25-a1.H), Y: a1.Y << uint(25-a1.H), V: 25, F: a1.F << uint(25-a1.V)}
			emit(&CaseC05{A: a, B: b, Spatial: spatial})
		}
	}
	// long first lists of pairwise different, non-nested voxels; every entry must be found again (an index structure
	// that loses the entry it was inserting when it grew)
	each := []int{1100, 2100}
	if tier != "quick" {
		each = []int{600, 1100, 2100, 4200, 8300}
	}
	for _, n := range each {
		bs := rowBoxes(n, 9, 9)
		emit(&CaseC05{A: bs, B: []ref.Box{bs[n/2]}, Spatial: true, Each: true})
		if n <= 2100 {
			emit(&CaseC05{A: bs, B: []ref.Box{bs[n/3]}, Each: true})
		}
	}
	for i, n := range roundSizes {
		if (tier == "quick" && i%3 != 1) || n > 1025 {
			continue
		}
		bs := rowBoxes(n, 7, 7)
		emit(allProcs(&CaseC05{A: bs, B: []ref.Box{bs[n-1]}, Spatial: true}))
		emit(&CaseC05{A: bs[:n/4], B: []ref.Box{{H: 7, X: 127, Y: 127, V: 7, F: 60}}})
	}
	// all pairs of boxes at zooms <= 2 on a reduced horizontal grid (x,y < 2), extended form
	var ext []ref.Box
	maxZ := int64(2)
	for h := int64(0); h <= 1; h++ {
		for v := int64(0); v <= maxZ; v++ {
			for x := int64(0); x < 1<<uint(h); x++ {
				for y := int64(0); y < 1<<uint(h); y++ {
					for f := -(int64(1) << uint(v)); f < 1<<uint(v); f++ {
						ext = append(ext, ref.Box{H: h, X: x, Y: y, V: v, F: f})
					}
				}
			}
		}
	}
	for i, a := range ext {
		for j, b := range ext {
			if tier == "quick" && (i*31+j)%5 != 0 {
				continue
			}
			emit(&CaseC05{A: []ref.Box{a}, B: []ref.Box{b}})
		}
	}
	// spatial form: all pairs of documented-valid boxes at z in 1..3 with x,y < 2
	var sp []ref.Box
	for z := int64(1); z <= 3; z++ {
		for x := int64(0); x < 2; x++ {
			for y := int64(0); y < 2; y++ {
				for f := -(int64(1) << uint(z-1)); f < 1<<uint(z-1); f++ {
					sp = append(sp, ref.Box{H: z, X: x, Y: y, V: z, F: f})
				}
			}
		}
	}
	for i, a := range sp {
		for j, b := range sp {
			if tier == "quick" && (i*17+j)%3 != 0 {
				continue
			}
			emit(&CaseC05{A: []ref.Box{a}, B: []ref.Box{b}, Spatial: true})
		}
	}
	// spatial form across the metre boundary: z in 24..28, a column of vertical cells around ground level
	for za := int64(24); za <= 28; za++ {
		for zb := int64(24); zb <= 28; zb++ {
			for fa := int64(-3); fa <= 3; fa++ {
				for fb := int64(-3); fb <= 3; fb++ {
					a := ref.Box{H: za, X: 5 << uint(za-24), Y: 9 << uint(za-24), V: za, F: fa}
					b := ref.Box{H: zb, X: 5 << uint(zb-24), Y: 9 << uint(zb-24), V: zb, F: fb}
					emit(&CaseC05{A: []ref.Box{a}, B: []ref.Box{b}, Spatial: true})
				}
			}
		}
	}
	// empty lists
	one := []ref.Box{{H: 3, X: 1, Y: 1, V: 3, F: 0}}
	for _, sp := range []bool{false, true} {
		emit(&CaseC05{A: nil, B: nil, Spatial: sp})
		emit(&CaseC05{A: one, B: nil, Spatial: sp})
		emit(&CaseC05{A: nil, B: one, Spatial: sp})
	}
}

func init() {
	register(PropT[CaseC05]{
		ID:   "C05",
		Rule: "rapid: lists A,B (0..4 each, two thirds single pairs; 0.8% with a first list of 33..129 same-zoom single-bit variants, every entry of which must be found again); B drawn as axis-wise relatives of A (descendant/ancestor per axis at zoom +-4, then one axis optionally shifted by +-1 or changed in one high bit: near misses, packing collisions) or unrelated; extended form at any zooms, single-zoom form on its documented domain (z>=1, -2^(z-1)<=f<2^(z-1), including z=26..35). Sweep: all pairs at zooms<=2 (reduced grid) in both forms, all pairs of ground-level columns at z=24..28, empty-list combinations. Non-trivial: some pair has different zooms on an axis and (f<0 or v>25 or the answer is true).",
		Assumptions: []string{
			"oracle: ancestor-or-equal on x, y and f (floor ancestors) in integer arithmetic; answers compared exactly",
			"single-zoom form restricted to the altitude range the function documents (+-2^24 m)",
		},
		Gen: genC05, Check: checkC05, Classify: classifyC05, Sweep: sweepC05,
		SweepScopes: func(tier string) []string {
			if tier == "quick" {
				return []string{"1/5 of all pairs of extended boxes with h<=1, v<=2", "1/3 of all pairs of single-zoom boxes with z in 1..3, x,y<2", "all pairs (z,f) x (z,f), z in 24..28, f in -3..3 in one column (exhaustive)", "all empty-list combinations"}
			}
			return []string{"all pairs of extended boxes with h<=1, v<=2 (exhaustive)", "all pairs of single-zoom boxes with z in 1..3, x,y<2 (exhaustive)", "all pairs (z,f) x (z,f), z in 24..28, f in -3..3 in one column (exhaustive)", "all empty-list combinations"}
		},
	})
}
