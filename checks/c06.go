package checks

import (
	"math"

	"github.com/trajectoryjp/spatial_id_go/v4/common/object"
	"github.com/trajectoryjp/spatial_id_go/v4/shape"
	"pgregory.net/rapid"

	"verif/ref"
)

type CaseC06 struct {
	S, E    Pt
	H, V    int64
	Spatial bool
	Kind    string // how the segment was built (for the class histogram)
}

// localSizes returns the voxel extents (deg lon, deg lat, metres) around a point.
func localSizes(p Pt, h, v int64) (float64, float64, float64) {
	n := math.Ldexp(1, int(h))
	wl := 360 / n
	y := int64(math.Floor(ref.MercFrac64(p.Lat.V()) * n))
	y = clamp64(y, 0, int64(n)-1)
	hl := ref.RowNorthLat(y, h) - ref.RowNorthLat(y+1, h)
	return wl, hl, math.Ldexp(1, int(25-v))
}

func clampPt(p Pt) Pt {
	return Pt{F64(math.Max(-180, math.Min(180, p.Lon.V()))), F64(math.Max(-latLimit, math.Min(latLimit, p.Lat.V()))), F64(math.Max(-altLimit, math.Min(altLimit, p.Alt.V())))}
}

func genC06(t *rapid.T) *CaseC06 {
	c := &CaseC06{}
	switch rapid.IntRange(0, 3).Draw(t, "zoomKind") {
	case 0:
		c.H = rapid.SampledFrom([]int64{30, 31, 29, 32, 35}).Draw(t, "hs")
		c.V = rapid.SampledFrom([]int64{33, 34, 32, 35, 25}).Draw(t, "vs")
	default:
		c.H = genZoom(t, "h", 0, 35)
		c.V = genZoom(t, "v", 0, 35)
	}
	c.Spatial = rapid.IntRange(0, 4).Draw(t, "spatial") == 0
	if c.Spatial {
		c.V = c.H
	}
	c.S = genPt(t, "s", c.H, c.V)
	if rapid.IntRange(0, 3).Draw(t, "ground") == 0 {
		// start just below / above ground so that the segment crosses f = 0
		_, _, ra := localSizes(c.S, c.H, c.V)
		c.S.Alt = F64(math.Max(-altLimit, math.Min(altLimit, ra*rapid.Float64Range(-3, 3).Draw(t, "galt"))))
	}
	wl, hl, ra := localSizes(c.S, c.H, c.V)
	maxSteps := 40.0
	step := func(label string) float64 {
		switch rapid.IntRange(0, 3).Draw(t, label+"_k") {
		case 0:
			return float64(rapid.IntRange(-6, 6).Draw(t, label))
		case 1:
			return rapid.Float64Range(-2, 2).Draw(t, label)
		default:
			return rapid.Float64Range(-maxSteps, maxSteps).Draw(t, label)
		}
	}
	kind := rapid.SampledFrom([]string{"axis-lon", "axis-lat", "axis-alt", "diagonal", "diagonal", "diagonal", "corner", "corner", "same-voxel"}).Draw(t, "kind")
	c.Kind = kind
	dx, dy, dz := step("dx"), step("dy"), step("dz")
	switch kind {
	case "axis-lon":
		dy, dz = 0, 0
	case "axis-lat":
		dx, dz = 0, 0
	case "axis-alt":
		dx, dy = 0, 0
	case "same-voxel":
		dx, dy, dz = dx/100, dy/100, dz/100
	case "corner":
		// both ends exactly on voxel corners: integer steps from a corner of the grid
		n := int64(1) << uint(c.H)
		kx := genIndex(t, "cx", 0, n)
		ky := genIndex(t, "cy", 0, n)
		m := int64(1) << uint(c.V)
		kf := clamp64(rapid.Int64Range(-m, m).Draw(t, "cf"), -m, m)
		if rapid.Bool().Draw(t, "cground") {
			kf = clamp64(rapid.Int64Range(-3, 3).Draw(t, "cf0"), -m, m)
		}
		c.S = clampPt(Pt{F64(ref.ColWestLon(kx, c.H)), F64(ref.RowNorthLat(ky, c.H)), F64(float64(kf) * ra)})
		ex := clamp64(kx+int64(math.Round(dx)), 0, n)
		ey := clamp64(ky+int64(math.Round(dy)), 0, n)
		ef := clamp64(kf+int64(math.Round(dz)), -m, m)
		c.E = clampPt(Pt{F64(ref.ColWestLon(ex, c.H)), F64(ref.RowNorthLat(ey, c.H)), F64(float64(ef) * ra)})
		return c
	}
	c.E = clampPt(Pt{F64(c.S.Lon.V() + dx*wl), F64(c.S.Lat.V() - dy*hl), F64(c.S.Alt.V() + dz*ra)})
	return c
}

type c06Info struct {
	sb, eb ref.Box
	ok     bool
}

func c06Ends(c *CaseC06) c06Info {
	s, e := c.S.obj(), c.E.obj()
	if s == nil || e == nil {
		return c06Info{}
	}
	ids, err := shape.GetExtendedSpatialIdsOnPoints([]*object.Point{s, e}, c.H, c.V)
	if err != nil || len(ids) != 2 {
		return c06Info{}
	}
	a, e1 := ref.ParseExt(ids[0])
	b, e2 := ref.ParseExt(ids[1])
	if e1 != nil || e2 != nil {
		return c06Info{}
	}
	return c06Info{a, b, true}
}

func classifyC06(c *CaseC06) (bool, []string) {
	cl := []string{"kind=" + c.Kind}
	nt := false
	inf := c06Ends(c)
	if inf.ok {
		ax := 0
		if inf.sb.X != inf.eb.X {
			ax++
		}
		if inf.sb.Y != inf.eb.Y {
			ax++
		}
		if inf.sb.F != inf.eb.F {
			ax++
		}
		span := absI(inf.sb.X-inf.eb.X) + absI(inf.sb.Y-inf.eb.Y) + absI(inf.sb.F-inf.eb.F)
		if ax >= 2 && span >= 3 {
			nt = true
			cl = append(cl, ">=4-voxels,>=2-axes")
		}
		if ax == 0 {
			cl = append(cl, "single-voxel")
		}
		if (inf.sb.F < 0) != (inf.eb.F < 0) {
			cl = append(cl, "crosses-ground")
		}
	}
	if c.Kind == "corner" {
		nt = true
	}
	if c.H >= 31 || c.V >= 34 {
		cl = append(cl, "high-zoom-thresholds")
	}
	if c.H != c.V {
		cl = append(cl, "h!=v")
	}
	if math.Abs(c.S.Lat.V()) > 84 || math.Abs(c.E.Lat.V()) > 84 {
		cl = append(cl, "near-lat-limit")
	}
	if math.Abs(c.S.Lon.V()) == 180 || math.Abs(c.E.Lon.V()) == 180 {
		cl = append(cl, "end-at-lon-180")
	}
	if c.Spatial {
		cl = append(cl, "spatial-api")
	}
	return nt, cl
}

// segHitsBox: does the segment s->e meet the axis-aligned box [lo,hi] (already inflated)?
func segHitsBox(s, e, lo, hi [3]float64) bool {
	t0, t1 := 0.0, 1.0
	for i := 0; i < 3; i++ {
		d := e[i] - s[i]
		if d == 0 {
			if s[i] < lo[i] || s[i] > hi[i] {
				return false
			}
			continue
		}
		a, b := (lo[i]-s[i])/d, (hi[i]-s[i])/d
		if a > b {
			a, b = b, a
		}
		if a > t0 {
			t0 = a
		}
		if b < t1 {
			t1 = b
		}
		if t0 > t1+1e-12 {
			return false
		}
	}
	return true
}

func checkC06(c *CaseC06, fl *Fails) {
	s, e := c.S.obj(), c.E.obj()
	if s == nil || e == nil {
		fl.Add("valid-point-rejected", "NewPoint rejected %+v / %+v", c.S, c.E)
		return
	}
	inf := c06Ends(c)
	if !inf.ok {
		fl.Add("error", "point lookup of the end points failed")
		return
	}
	ids, err := shape.GetExtendedSpatialIdsOnLine(s, e, c.H, c.V)
	desc := jsonStr(c)
	if err != nil {
		fl.Add("error", "%s: %v", desc, err)
		return
	}
	if d, dup := hasDup(ids); dup {
		fl.Add("duplicate", "%s: %s returned twice", desc, d)
	}
	set := map[ref.Box]struct{}{}
	for _, id := range ids {
		b, perr := ref.ParseExt(id)
		if perr != nil {
			fl.Add("format", "%s: %v", desc, perr)
			return
		}
		if b.H != c.H || b.V != c.V {
			fl.Add("zoom-field", "%s: id %s not at the requested zooms", desc, id)
		}
		set[b] = struct{}{}
	}
	if _, ok := set[inf.sb]; !ok {
		fl.Add("end-missing", "%s: the start point's voxel %s is not in the result", desc, inf.sb.Ext())
	}
	if _, ok := set[inf.eb]; !ok {
		fl.Add("end-missing", "%s: the end point's voxel %s is not in the result", desc, inf.eb.Ext())
	}
	if inf.sb == inf.eb && (len(ids) != 1 || ids[0] != inf.sb.Ext()) {
		fl.Add("single-voxel", "%s: both ends lie in %s but the result is %v", desc, inf.sb.Ext(), trunc(ids, 8))
	}
	// every voxel is touched by the segment
	ps := [3]float64{s.Lon(), s.Lat(), s.Alt()}
	pe := [3]float64{e.Lon(), e.Lat(), e.Alt()}
	n := int64(1) << uint(c.H)
	res := math.Ldexp(1, int(25-c.V))
	tolLon, tolLat := 1e-12, 1e-10+2e-12
	for b := range set {
		if b.X < 0 || b.X >= n || b.Y < 0 || b.Y >= n {
			fl.Add("index-range", "%s: voxel %s outside the grid", desc, b.Ext())
			continue
		}
		tolAlt := 1e-9 * (1 + math.Abs(float64(b.F)*res))
		lo := [3]float64{ref.ColWestLon(b.X, b.H) - tolLon, ref.RowNorthLat(b.Y+1, b.H) - tolLat, float64(b.F)*res - tolAlt}
		hi := [3]float64{ref.ColWestLon(b.X+1, b.H) + tolLon, ref.RowNorthLat(b.Y, b.H) + tolLat, float64(b.F+1)*res + tolAlt}
		hit := segHitsBox(ps, pe, lo, hi)
		if !hit && b.X == 0 {
			// longitude 180 is folded onto column 0: the same box one world-width to the east
			lo[0], hi[0] = lo[0]+360, hi[0]+360
			hit = segHitsBox(ps, pe, lo, hi)
		}
		if !hit {
			fl.Add("stray-voxel", "%s: voxel %s is not touched by the segment", desc, b.Ext())
			break
		}
	}
	// connected chain from the start voxel to the end voxel (26-adjacency, x modulo 2^h)
	if _, ok := set[inf.sb]; ok {
		seen := map[ref.Box]struct{}{inf.sb: {}}
		queue := []ref.Box{inf.sb}
		for len(queue) > 0 {
			b := queue[0]
			queue = queue[1:]
			for dx := int64(-1); dx <= 1; dx++ {
				for dy := int64(-1); dy <= 1; dy++ {
					for df := int64(-1); df <= 1; df++ {
						nb := ref.Box{H: b.H, X: ref.Mod(b.X+dx, b.H), Y: b.Y + dy, V: b.V, F: b.F + df}
						if _, in := set[nb]; !in {
							continue
						}
						if _, done := seen[nb]; done {
							continue
						}
						seen[nb] = struct{}{}
						queue = append(queue, nb)
					}
				}
			}
		}
		if _, ok := seen[inf.eb]; !ok {
			fl.Add("gap", "%s: no chain of touching voxels from %s to %s in the %d returned voxels (%d reachable)", desc, inf.sb.Ext(), inf.eb.Ext(), len(set), len(seen))
		} else if len(seen) != len(set) {
			fl.Add("detached-voxel", "%s: %d of the %d returned voxels are not connected to the chain", desc, len(set)-len(seen), len(set))
		}
	}
	// spatial form
	if c.Spatial {
		sp, err := shape.GetSpatialIdsOnLine(s, e, c.H)
		if err != nil {
			fl.Add("error", "%s: spatial form: %v", desc, err)
			return
		}
		want := map[string]struct{}{}
		for b := range set {
			want[b.Spatial()] = struct{}{}
		}
		if miss, extra := diffSets(sp, want); len(miss)+len(extra) > 0 || len(sp) != len(want) {
			fl.Add("spatial-form", "%s: spatial form differs: missing %v, unexpected %v", desc, miss, extra)
		}
	}
}

func sweepC06(tier string, emit func(*CaseC06)) {
	// long segments: thousands of voxels in one call (level, climbing and diagonal), so that an implementation which
	// works through the segment in slabs, batches or a bounded recursion still has to return one gap-free chain
	long := []float64{9000.4}
	if tier != "quick" {
		long = []float64{1100.4, 4200.4, 9000.4, 33000.4}
	}
	for _, n := range long {
		base := Pt{F64(139.788452), F64(35.670935), F64(100)}
		wl, hl, ra := localSizes(base, 25, 25)
		emit(&CaseC06{S: base, E: Pt{F64(base.Lon.V() + n*wl), base.Lat, base.Alt}, H: 25, V: 10, Kind: "long"})
		emit(&CaseC06{S: base, E: Pt{F64(base.Lon.V() + n/3*wl), F64(base.Lat.V() - n/3*hl), F64(base.Alt.V() + n/3*ra)}, H: 25, V: 25, Kind: "long"})
		emit(&CaseC06{S: base, E: Pt{F64(base.Lon.V() + n/2*wl), F64(base.Lat.V() + n/2*hl), base.Alt}, H: 25, V: 25, Spatial: true, Kind: "long"})
	}
	dirs := [][3]float64{{1, 0, 0}, {0, 1, 0}, {0, 0, 1}, {1, 1, 0}, {1, 0, 1}, {0, 1, 1}, {1, 1, 1}, {-1, 1, 1}, {1, -1, 1}, {1, 1, -1}, {3, 1, 2}, {-2, 5, -1}}
	for _, h := range []int64{0, 1, 2, 10, 29, 30, 31, 32, 35} {
		for _, v := range []int64{0, 24, 25, 26, 32, 33, 34, 35} {
			if tier == "quick" && (h+v)%2 == 1 {
				continue
			}
			for _, d := range dirs {
				for _, base := range []Pt{{F64(139.767125), F64(35.681236), F64(-0.3)}, {F64(-179.9999999), F64(-84.9), F64(10)}, {F64(0), F64(0), F64(0)}} {
					wl, hl, ra := localSizes(base, h, v)
					k := 7.3
					c := &CaseC06{S: base, H: h, V: v, Kind: "sweep"}
					c.E = clampPt(Pt{F64(base.Lon.V() + k*d[0]*wl), F64(base.Lat.V() - k*d[1]*hl), F64(base.Alt.V() + k*d[2]*ra)})
					emit(c)
				}
			}
		}
	}
}

func init() {
	register(PropT[CaseC06]{
		ID:   "C06",
		Rule: "rapid: zooms (a quarter at the threshold switches h in {29..32,35} x v in {32..35,25}; one fifth through the single-zoom API) x start point (C01 generator; a quarter within 3 voxels of ground level) x end = start + (dx,dy,dz) in local voxel units (integer steps, |.|<=2, or up to 40): axis-parallel, diagonal, both ends exactly on voxel corners, or both ends in one voxel; clamped to the valid domain. Sweep: 9 horizontal x 8 vertical zooms x 12 directions x 3 base points. Non-trivial: end voxels differ on >=2 axes with >=4 voxels between them, or both ends lie exactly on voxel corners.",
		Assumptions: []string{
			"validity predicate, not one expected answer: duplicate-free, both end voxels present, every voxel passes a slab test against the segment (voxel bounds from the reference, inflated by 1e-12 deg lon, 1e-10 deg lat (midpoints are stored with the documented 1e-10 truncation), 1e-9 relative alt), 26-connected chain from the start to the end voxel and no detached voxel",
			"longitude 180 is folded onto column 0, so column 0 is also tested one world-width to the east and adjacency is modulo 2^h in x",
			"segments bounded to a few hundred voxels (cost)",
		},
		Gen: genC06, Check: checkC06, Classify: classifyC06, Sweep: sweepC06,
		SweepScopes: func(tier string) []string {
			return []string{"h in {0,1,2,10,29,30,31,32,35} x v in {0,24,25,26,32,33,34,35} x 12 canonical directions x 3 base points, 7.3 voxels long"}
		},
	})
}
