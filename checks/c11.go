package checks

import (
	"fmt"
	"math/big"
	"sync"

	"github.com/trajectoryjp/spatial_id_go/v4/common/object"
	"github.com/trajectoryjp/spatial_id_go/v4/transform"
	"pgregory.net/rapid"

	"verif/ref"
)

type CaseC11 struct {
	Boxes        []ref.Box // 1 <= h <= 31
	OutH, OutV   int64     // zooms of the (quadkey, vertical index) pairs
	BackH, BackV int64     // zooms of the IDs converted back
	KeyZoom      int64     // zoom of the raw keys below
	Keys         []int64   // raw quadkeys < 4^KeyZoom (decode/encode bijectivity)
	AltKey       bool      // also exercise the altitude-key variant (inputs have v <= 25)
	BigPre       bool      // sweep only: the process first performs one conversion with > 2^21 pairs that contains this case's pairs
	E, Off       int64
	Reuse        int64 `json:",omitempty"` // != 0: pair objects are re-used objects filled through their setters (objects.go)
}

func genLeadingZeroIndex(t *rapid.T, label string, h int64) int64 {
	n := int64(1) << uint(h)
	switch rapid.IntRange(0, 3).Draw(t, label+"_kind") {
	case 0: // leading zero bits
		lim := n >> uint(rapid.Int64Range(1, max64(1, min64(h, 8))).Draw(t, label+"_lz"))
		if lim < 1 {
			lim = 1
		}
		return rapid.Int64Range(0, lim-1).Draw(t, label)
	case 1:
		return clamp64(rapid.SampledFrom([]int64{0, 1, n - 1, n - 2, n / 2}).Draw(t, label), 0, n-1)
	default:
		return rapid.Int64Range(0, n-1).Draw(t, label)
	}
}

func genC11(t *rapid.T) *CaseC11 {
	c := &CaseC11{}
	h := genZoom(t, "h", 1, 31)
	v := genZoom(t, "v", 0, 35)
	c.AltKey = rapid.IntRange(0, 3).Draw(t, "alt") == 0
	if c.AltKey {
		v = genZoom(t, "v25", 0, 25)
	}
	seed := ref.Box{H: h, X: genLeadingZeroIndex(t, "x", h), Y: genLeadingZeroIndex(t, "y", h), V: v, F: genF(t, "f", v)}
	c.Boxes = []ref.Box{seed}
	for i := rapid.IntRange(0, 4).Draw(t, "more"); i > 0; i-- {
		base := c.Boxes[rapid.IntRange(0, len(c.Boxes)-1).Draw(t, "base")]
		switch rapid.IntRange(0, 4).Draw(t, "rel") {
		case 4: // same zoom, one index differs in a single (often the top) bit
			nb := base
			k := uint(rapid.IntRange(0, int(base.H)-1).Draw(t, "bit"))
			if rapid.Bool().Draw(t, "topbit") {
				k = uint(base.H - 1)
			}
			if rapid.Bool().Draw(t, "bitY") {
				nb.Y ^= int64(1) << k
			} else {
				nb.X ^= int64(1) << k
			}
			c.Boxes = append(c.Boxes, nb)
		case 0:
			c.Boxes = append(c.Boxes, base) // repeated
		case 1: // nested: a child
			if base.H < 31 && base.V < 35 && (!c.AltKey || base.V < 25) {
				c.Boxes = append(c.Boxes, ref.Box{H: base.H + 1, X: base.X*2 + rapid.Int64Range(0, 1).Draw(t, "cx"), Y: base.Y*2 + rapid.Int64Range(0, 1).Draw(t, "cy"), V: base.V + 1, F: base.F*2 + rapid.Int64Range(0, 1).Draw(t, "cf")})
			} else {
				c.Boxes = append(c.Boxes, base)
			}
		case 2: // nested: the parent
			if base.H > 1 && base.V > 0 {
				c.Boxes = append(c.Boxes, ref.Box{H: base.H - 1, X: base.X >> 1, Y: base.Y >> 1, V: base.V - 1, F: base.F >> 1})
			} else {
				c.Boxes = append(c.Boxes, base)
			}
		default:
			nb := ref.Shift(base, rapid.Int64Range(-1, 1).Draw(t, "sx"), rapid.Int64Range(-1, 1).Draw(t, "sy"), rapid.Int64Range(-1, 1).Draw(t, "sv"))
			if nb.Valid() {
				c.Boxes = append(c.Boxes, nb)
			}
		}
	}
	if v <= 31 && (!c.AltKey || v <= 21) && rapid.IntRange(0, 5).Draw(t, "column") == 3 {
		// one column (footprint of the seed), many vertical pieces: fine voxels with gaps between them, coarser voxels
		// covering several of them, further fine voxels above and below, in any order (the vertical runs of the entries
		// touch, overlap and contain one another in every way)
		c.Boxes = c.Boxes[:1]
		base := seed.F &^ 15 // a block of 16 fine cells, 8 / 4 / 2 / 1 cells per entry
		add := func(cell int64, lvl uint) {
			if lvl > uint(v) {
				lvl = uint(v)
			}
			nb := ref.Box{H: h, X: seed.X, Y: seed.Y, V: v - int64(lvl), F: cell >> lvl}
			if nb.Valid() {
				c.Boxes = append(c.Boxes, nb)
			}
		}
		if rapid.Bool().Draw(t, "colPattern") {
			// separated fine cells first, then the block that contains them, then fine cells of the block again
			for _, cell := range rapid.SliceOfNDistinct(rapid.Int64Range(0, 15), 2, 5, rapid.ID[int64]).Draw(t, "singles") {
				add(base+cell, 0)
			}
			add(base+rapid.Int64Range(0, 15).Draw(t, "blockAt"), uint(rapid.IntRange(2, 4).Draw(t, "blockLvl")))
			for i := rapid.IntRange(1, 3).Draw(t, "after"); i > 0; i-- {
				add(base+rapid.Int64Range(0, 15).Draw(t, "cellAfter"), uint(rapid.IntRange(0, 1).Draw(t, "lvlAfter")))
			}
		} else {
			for i := rapid.IntRange(4, 10).Draw(t, "nCol"); i > 0; i-- {
				add(base+rapid.Int64Range(-2, 17).Draw(t, "cell"), uint(rapid.IntRange(0, 3).Draw(t, "lvl"))) // entry covers 2^lvl fine cells
			}
		}
	}
	if rapid.IntRange(0, 59).Draw(t, "long") == 0 {
		// long list: the seed's row of tiles and vertical cells (plus repeats), converted at its own zooms or coarser
		n := rapid.SampledFrom([]int{33, 64, 65, 130, 257}).Draw(t, "nLong")
		for i := 0; len(c.Boxes) < n; i++ {
			nb := ref.Shift(seed, int64(i%17), int64(i/17), int64(i%5)-2)
			if nb.Valid() {
				c.Boxes = append(c.Boxes, nb)
			} else {
				c.Boxes = append(c.Boxes, seed)
			}
		}
	}
	c.OutH = clamp64(h+rapid.Int64Range(-6, 2).Draw(t, "doh"), 1, 31)
	c.OutV = clamp64(v+rapid.Int64Range(-8, 3).Draw(t, "dov"), 0, 35)
	if rapid.Bool().Draw(t, "same") {
		c.OutH, c.OutV = h, v
	}
	// bound the number of pairs
	for {
		tot := new(big.Int)
		for _, b := range c.Boxes {
			tot.Add(tot, ref.ZoomCount(b, c.OutH, c.OutV))
		}
		if tot.Cmp(big.NewInt(2048)) <= 0 {
			break
		}
		if c.OutV > 0 && rapid.Bool().Draw(t, "lowerV") {
			c.OutV--
		} else if c.OutH > 1 {
			c.OutH--
		} else {
			c.OutV--
		}
	}
	c.BackH = clamp64(c.OutH+rapid.Int64Range(-4, 1).Draw(t, "dbh"), 0, 35)
	c.BackV = clamp64(c.OutV+rapid.Int64Range(-4, 2).Draw(t, "dbv"), 0, 35)
	if rapid.Bool().Draw(t, "backsame") {
		c.BackH, c.BackV = c.OutH, c.OutV
	}
	c.KeyZoom = genZoom(t, "kz", 1, 31)
	lim := int64(1) << uint(2*c.KeyZoom)
	for i := rapid.IntRange(0, 4).Draw(t, "nk"); i > 0; i-- {
		switch rapid.IntRange(0, 2).Draw(t, "kk") {
		case 0:
			c.Keys = append(c.Keys, rapid.Int64Range(0, max64(0, lim>>uint(rapid.IntRange(1, 10).Draw(t, "klz"))-1)).Draw(t, "key"))
		case 1:
			c.Keys = append(c.Keys, clamp64(rapid.SampledFrom([]int64{0, 1, 2, 3, lim - 1, lim - 2, lim / 4, lim/4 - 1}).Draw(t, "key"), 0, lim-1))
		default:
			c.Keys = append(c.Keys, rapid.Int64Range(0, lim-1).Draw(t, "key"))
		}
	}
	c.E = 25
	c.Off = 0
	if c.AltKey {
		c.E = genZoom(t, "E", 20, 30)
		// offset that keeps the keys non-negative for the (possibly negative) inputs
		c.Off = int64(1)<<25 + rapid.Int64Range(-5, 5).Draw(t, "off")
	}
	c.Reuse = genReuse(t)
	return c
}

func classifyC11(c *CaseC11) (bool, []string) {
	var cl []string
	nt := false
	seen := map[ref.Box]struct{}{}
	for _, b := range c.Boxes {
		k := ref.Quadkey(b.H, b.X, b.Y)
		if k < int64(1)<<uint(2*b.H-2) {
			nt = true
			cl = append(cl, "quadkey-with-leading-zero-digit")
		}
		if b.F < 0 {
			nt = true
			cl = append(cl, "f<0")
		}
		if _, ok := seen[b]; ok {
			nt = true
			cl = append(cl, "repeated-id")
		}
		seen[b] = struct{}{}
		for _, o := range c.Boxes {
			if o != b && ref.Contains(o, b) {
				nt = true
				cl = append(cl, "nested-ids")
			}
		}
	}
	if c.OutH == c.Boxes[0].H && c.OutV == c.Boxes[0].V {
		cl = append(cl, "same-zoom-roundtrip")
	} else {
		cl = append(cl, "zoom-changing")
	}
	if c.AltKey {
		cl = append(cl, "altitude-key-variant")
	}
	if len(c.Boxes) >= 33 {
		cl = append(cl, "long-list")
	}
	if len(c.Keys) > 0 {
		cl = append(cl, "raw-keys")
	}
	return nt, uniq(cl)
}

type pair struct{ k, v int64 }

var c11BigOnce sync.Once

func checkC11(c *CaseC11, fl *Fails) {
	if c.BigPre {
		// history with a size threshold: one very large conversion earlier in the same process (pools / caches that
		// are only reset below some size would keep its pairs)
		c11BigOnce.Do(func() {
			_, _ = transform.ConvertExtendedSpatialIDsToQuadkeysAndVerticalIDs([]string{"5/3/3/5/-1"}, 13, 10, 0, 0)
			_, _ = transform.ConvertExtendedSpatialIDsToQuadkeysAndAltitudekeys([]string{"5/3/3/20/-1"}, 13, 25, 25, 1<<25)
		})
	}
	ids := boxesExt(c.Boxes)
	groups, err := transform.ConvertExtendedSpatialIDsToQuadkeysAndVerticalIDs(ids, c.OutH, c.OutV, 0, 0)
	if err != nil {
		fl.Add("error", "ConvertExtendedSpatialIDsToQuadkeysAndVerticalIDs(%v,%d,%d,0,0): %v", ids, c.OutH, c.OutV, err)
		return
	}
	want := map[pair]ref.Box{}
	for b := range ref.ZoomSet(c.Boxes, c.OutH, c.OutV) {
		want[pair{ref.Quadkey(b.H, b.X, b.Y), b.F}] = b
	}
	got := map[pair]struct{}{}
	lim := int64(1) << uint(2*c.OutH)
	var list []*object.QuadkeyAndVerticalID
	for gi, g := range groups {
		if g.QuadkeyZoom() != c.OutH || g.VerticalZoom() != c.OutV || g.MaxHeight() != 0 || g.MinHeight() != 0 {
			fl.Add("group-fields", "group %d reports zooms %d/%d heights %v/%v, request was %d/%d 0/0", gi, g.QuadkeyZoom(), g.VerticalZoom(), g.MaxHeight(), g.MinHeight(), c.OutH, c.OutV)
		}
		if len(g.InnerIDList()) == 0 {
			fl.Add("empty-group", "group %d is empty", gi)
		}
		for _, p := range g.InnerIDList() {
			pp := pair{p[0], p[1]}
			if _, dup := got[pp]; dup {
				fl.Add("pair-twice", "pair (quadkey %d, v %d) reported twice (ids %v -> %d/%d)", p[0], p[1], ids, c.OutH, c.OutV)
			}
			got[pp] = struct{}{}
			if p[0] < 0 || p[0] >= lim {
				fl.Add("key-range", "quadkey %d outside 0..4^%d-1", p[0], c.OutH)
			}
			reuse := c.Reuse
			if reuse != 0 {
				reuse += int64(len(list)) * 977
			}
			q := mkQK(reuse, c.OutH, p[0], c.OutV, p[1], 0, 0)
			if reuse != 0 {
				if a, b := qkFields(q), qkFields(object.NewQuadkeyAndVerticalID(c.OutH, p[0], c.OutV, p[1], 0, 0)); a != b {
					fl.Add("object-setters", "a re-used QuadkeyAndVerticalID filled through its setters (order %v) reports %s, a constructed one %s", permOf(reuse/31, 6), a, b)
				}
			}
			list = append(list, q)
		}
	}
	for p, b := range want {
		if _, ok := got[p]; !ok {
			fl.Add("pair-set", "ids %v -> %d/%d: pair for voxel %s (quadkey %d, v %d) missing", ids, c.OutH, c.OutV, b.Ext(), p.k, p.v)
			break
		}
	}
	for p := range got {
		if _, ok := want[p]; !ok {
			x, y := ref.UnQuadkey(c.OutH, p.k)
			fl.Add("pair-set", "ids %v -> %d/%d: unexpected pair (quadkey %d = tile %d/%d, v %d)", ids, c.OutH, c.OutV, p.k, x, y, p.v)
			break
		}
	}
	if fl.Has() {
		return
	}
	// the returned groups belong to the caller: a later conversion must not change them
	{
		snap := fmt.Sprint(len(groups))
		for _, g := range groups {
			snap += fmt.Sprint(g.QuadkeyZoom(), g.VerticalZoom(), g.InnerIDList())
		}
		shifted := ref.Shift(c.Boxes[0], 1, 1, 1)
		if shifted.Valid() {
			_, _ = transform.ConvertExtendedSpatialIDsToQuadkeysAndVerticalIDs([]string{shifted.Ext()}, c.OutH, c.OutV, 0, 0)
		}
		after := fmt.Sprint(len(groups))
		for _, g := range groups {
			after += fmt.Sprint(g.QuadkeyZoom(), g.VerticalZoom(), g.InnerIDList())
		}
		if after != snap {
			fl.Add("result-retention", "ids %v -> %d/%d: the returned groups changed after a later conversion of another ID", ids, c.OutH, c.OutV)
		}
	}
	// back to IDs
	var outBoxes []ref.Box
	for _, b := range want {
		outBoxes = append(outBoxes, b)
	}
	total := new(big.Int)
	for _, b := range outBoxes {
		total.Add(total, ref.ZoomCount(b, c.BackH, c.BackV))
	}
	if total.Cmp(big.NewInt(8192)) <= 0 {
		back, err := transform.ConvertQuadkeysAndVerticalIDsToExtendedSpatialIDs(list, c.BackH, c.BackV)
		if err != nil {
			fl.Add("error", "ConvertQuadkeysAndVerticalIDsToExtendedSpatialIDs(%d pairs,%d,%d): %v", len(list), c.BackH, c.BackV, err)
			return
		}
		if d, dup := hasDup(back); dup {
			fl.Add("duplicate", "IDs converted back contain %s twice", d)
		}
		wb := extSet(ref.ZoomSet(outBoxes, c.BackH, c.BackV))
		if miss, extra := diffSets(back, wb); len(miss)+len(extra) > 0 {
			fl.Add("back-set", "pairs of %v at %d/%d converted back at %d/%d: missing %v, unexpected %v", ids, c.OutH, c.OutV, c.BackH, c.BackV, miss, extra)
		}
		if c.BackH == c.BackV {
			sb, err := transform.ConvertQuadkeysAndVerticalIDsToSpatialIDs(list, c.BackH)
			if err != nil {
				fl.Add("error", "ConvertQuadkeysAndVerticalIDsToSpatialIDs: %v", err)
			} else {
				ws := map[string]struct{}{}
				for b := range ref.ZoomSet(outBoxes, c.BackH, c.BackV) {
					ws[b.Spatial()] = struct{}{}
				}
				if miss, extra := diffSets(sb, ws); len(miss)+len(extra) > 0 || len(sb) != len(ws) {
					fl.Add("back-spatial", "spatial variant at %d: missing %v, unexpected %v", c.BackH, miss, extra)
				}
			}
		}
	}
	// raw keys: decode then encode
	for _, k := range c.Keys {
		q := mkQK(c.Reuse, c.KeyZoom, k, 3, -2, 0, 0)
		dec, err := transform.ConvertQuadkeysAndVerticalIDsToExtendedSpatialIDs([]*object.QuadkeyAndVerticalID{q}, c.KeyZoom, 3)
		if err != nil || len(dec) != 1 {
			fl.Add("decode", "decode key %d @%d: %v %v", k, c.KeyZoom, dec, err)
			continue
		}
		x, y := ref.UnQuadkey(c.KeyZoom, k)
		if w := fmt.Sprintf("%d/%d/%d/3/-2", c.KeyZoom, x, y); dec[0] != w {
			fl.Add("decode", "key %d @%d decodes to %s, bit de-interleaving gives %s", k, c.KeyZoom, dec[0], w)
			continue
		}
		enc, err := transform.ConvertExtendedSpatialIDsToQuadkeysAndVerticalIDs(dec, c.KeyZoom, 3, 0, 0)
		if err != nil || len(enc) != 1 || len(enc[0].InnerIDList()) != 1 || enc[0].InnerIDList()[0][0] != k {
			fl.Add("encode-decode", "key %d @%d -> %s -> %v", k, c.KeyZoom, dec[0], enc)
		}
	}
	// altitude-key variant: horizontal part identical, vertical part = C12 covering range (exact for v <= 25)
	if c.AltKey {
		ag, err := transform.ConvertExtendedSpatialIDsToQuadkeysAndAltitudekeys(ids, c.OutH, c.OutV, c.E, c.Off)
		wantA := map[pair]struct{}{}
		mustErr := false
		for _, b := range c.Boxes {
			lo, hi := ref.KeysCovering(ref.SpatialCell(b.V, b.F), c.OutV, c.E, c.Off)
			if !ref.KeyIndexValid(c.OutV, lo) || !ref.KeyIndexValid(c.OutV, hi) {
				mustErr = true
				break
			}
			if new(big.Int).Sub(hi, lo).Cmp(big.NewInt(4096)) > 0 {
				return // too many keys to enumerate; the vertical part is C12's subject
			}
			xl, xh := ref.AxisRange(b.H, b.X, c.OutH)
			yl, yh := ref.AxisRange(b.H, b.Y, c.OutH)
			for x := xl; x <= xh; x++ {
				for y := yl; y <= yh; y++ {
					for k := lo.Int64(); k <= hi.Int64(); k++ {
						wantA[pair{ref.Quadkey(c.OutH, x, y), k}] = struct{}{}
					}
				}
			}
		}
		if mustErr {
			if err == nil {
				fl.Add("altkey-missing-error", "altitude-key variant of %v (%d/%d E=%d off=%d): range leaves the key index range but no error", ids, c.OutH, c.OutV, c.E, c.Off)
			}
			return
		}
		if err != nil {
			fl.Add("altkey-error", "altitude-key variant of %v (%d/%d E=%d off=%d): %v", ids, c.OutH, c.OutV, c.E, c.Off, err)
			return
		}
		gotA := map[pair]struct{}{}
		for gi, g := range ag {
			if g.QuadkeyZoom() != c.OutH || g.AltitudekeyZoom() != c.OutV || g.ZBaseExponent() != c.E || g.ZBaseOffset() != c.Off {
				fl.Add("group-fields", "altitude-key group %d reports %d/%d E=%d off=%d, request %d/%d E=%d off=%d", gi, g.QuadkeyZoom(), g.AltitudekeyZoom(), g.ZBaseExponent(), g.ZBaseOffset(), c.OutH, c.OutV, c.E, c.Off)
			}
			for _, p := range g.InnerIDList() {
				pp := pair{p[0], p[1]}
				if _, dup := gotA[pp]; dup {
					fl.Add("pair-twice", "altitude-key pair (%d,%d) reported twice", p[0], p[1])
				}
				gotA[pp] = struct{}{}
			}
		}
		for p := range wantA {
			if _, ok := gotA[p]; !ok {
				fl.Add("altkey-set", "altitude-key variant of %v (%d/%d E=%d off=%d): pair (%d,%d) missing", ids, c.OutH, c.OutV, c.E, c.Off, p.k, p.v)
				break
			}
		}
		for p := range gotA {
			if _, ok := wantA[p]; !ok {
				fl.Add("altkey-set", "altitude-key variant of %v (%d/%d E=%d off=%d): unexpected pair (%d,%d)", ids, c.OutH, c.OutV, c.E, c.Off, p.k, p.v)
				break
			}
		}
	}
}

func sweepC11(tier string, emit func(*CaseC11)) {
	for i, n := range roundSizes {
		if (tier == "quick" && i%3 != 1) || n > 2048 {
			continue
		}
		emit(allProcs(&CaseC11{Boxes: rowBoxes(n, 8, 6), OutH: 8, OutV: 6, BackH: 8, BackV: 6, KeyZoom: 8, E: 25}))
	}
	// every output zoom pair (1..31 x 0..35): four IDs of that zoom that differ only in the top bit of x and / or y
	// (packed keys that drop a high bit), same vertical index; round trip at the same zooms
	for h := int64(1); h <= 31; h++ {
		for v := int64(0); v <= 35; v++ {
			if tier == "quick" && (h*5+v)%3 != 0 && 2*h+v != 64 && 2*h+v != 63 {
				continue
			}
			top := int64(1) << uint(h-1)
			x, y := top/3, top/5
			f := -(int64(1) << uint(v)) / 3
			bs := []ref.Box{{H: h, X: x, Y: y, V: v, F: f}, {H: h, X: x, Y: y | top, V: v, F: f}, {H: h, X: x | top, Y: y, V: v, F: f}, {H: h, X: x | top, Y: y | top, V: v, F: f}}
			emit(&CaseC11{Boxes: bs, OutH: h, OutV: v, BackH: h, BackV: v, KeyZoom: h, E: 25})
		}
	}
	if tier != "quick" {
		// descendants of 5/3/3/5/-1 at (13,10): their pairs were all produced by the big conversion before
		for _, d := range [][3]int64{{0, 0, 0}, {255, 255, 31}, {17, 200, 5}, {128, 1, 30}} {
			b := ref.Box{H: 13, X: 3<<8 + d[0], Y: 3<<8 + d[1], V: 10, F: -32 + d[2]}
			emit(&CaseC11{Boxes: []ref.Box{b}, OutH: 13, OutV: 10, BackH: 13, BackV: 10, KeyZoom: 13, E: 25, BigPre: true})
			emit(&CaseC11{Boxes: []ref.Box{{H: 13, X: b.X, Y: b.Y, V: 20, F: -32 + d[2]}}, OutH: 13, OutV: 25, BackH: 13, BackV: 25, KeyZoom: 13, E: 25, Off: 1 << 25, AltKey: true, BigPre: true})
		}
	}
	maxH := int64(5)
	if tier == "quick" {
		maxH = 4
	}
	for h := int64(1); h <= maxH; h++ {
		n := int64(1) << uint(h)
		// all tiles of the zoom in one list: every key of the zoom must come back exactly once
		for x := int64(0); x < n; x++ {
			c := &CaseC11{OutH: h, OutV: 2, BackH: h, BackV: 2, KeyZoom: h, E: 25}
			for y := int64(0); y < n; y++ {
				c.Boxes = append(c.Boxes, ref.Box{H: h, X: x, Y: y, V: 2, F: -3})
			}
			for k := x * n; k < (x+1)*n; k++ {
				c.Keys = append(c.Keys, k)
			}
			emit(c)
		}
	}
	for h := int64(1); h <= 31; h++ {
		n := int64(1) << uint(h)
		for _, xy := range [][2]int64{{0, 0}, {n - 1, n - 1}, {1, 0}, {0, 1}, {n - 1, 0}, {n / 2, n/2 - 1}} {
			lim := int64(1) << uint(2*h)
			emit(&CaseC11{Boxes: []ref.Box{{H: h, X: clamp64(xy[0], 0, n-1), Y: clamp64(xy[1], 0, n-1), V: 35, F: -(1 << 35)}}, OutH: h, OutV: 35, BackH: h, BackV: 35, KeyZoom: h, Keys: []int64{0, 1, 2, 3, lim - 1, lim / 4}, E: 25})
		}
	}
}

func init() {
	register(PropT[CaseC11]{
		ID:          "C11",
		Rule:        "rapid: list (1..5) of extended IDs with 1<=h<=31 (x,y with leading zero bits, repeated, nested parent/child, neighbours; half f<0) x pair zooms (1..31 x 0..35, bounded to <=2048 pairs) x back-conversion zooms x raw keys < 4^zoom (leading zero digits, extremes); a quarter of the cases also run the altitude-key variant. Sweep: every tile and every key at h<=5; extreme tiles and keys at h=1..31. Non-trivial: a quadkey with a leading zero digit, or repeated / nested IDs in the list, or f<0.",
		Assumptions: []string{"oracle: bit interleaving and the dyadic-box zoom reference; compared as exact sets of pairs / IDs", "altitude-key variant compared exactly only for inputs with v<=25 (exact regime of C12)"},
		Gen:         genC11, Check: checkC11, Classify: classifyC11, Sweep: sweepC11,
		SweepScopes: func(tier string) []string {
			if tier == "quick" {
				return []string{"every tile (x,y) and every key < 4^h for h<=4 (exhaustive): encode, decode, round trip", "h=1..31: 6 extreme tiles and 6 extreme keys"}
			}
			return []string{"every tile (x,y) and every key < 4^h for h<=5 (exhaustive): encode, decode, round trip", "h=1..31: 6 extreme tiles and 6 extreme keys"}
		},
	})
}
