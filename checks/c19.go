package checks

import (
	"fmt"
	"math"
	"os"
	"path/filepath"
	"sort"
	"strings"
	"sync"
	"sync/atomic"
	"time"

	"github.com/trajectoryjp/spatial_id_go/v4/common"
	"github.com/trajectoryjp/spatial_id_go/v4/common/enum"
	"github.com/trajectoryjp/spatial_id_go/v4/common/object"
	"github.com/trajectoryjp/spatial_id_go/v4/common/spatial"
	"github.com/trajectoryjp/spatial_id_go/v4/detector"
	"github.com/trajectoryjp/spatial_id_go/v4/integrate"
	"github.com/trajectoryjp/spatial_id_go/v4/operated"
	"github.com/trajectoryjp/spatial_id_go/v4/shape"
	"github.com/trajectoryjp/spatial_id_go/v4/transform"
	"pgregory.net/rapid"

	"verif/ref"
)

// CaseC19 is a workload: calls (indices into c19Ops) over one shared set of arguments, run by G goroutines.
type CaseC19 struct {
	Boxes []ref.Box // shared ID lists are derived from these (extended; h=v copies for the single-zoom API)
	Pts   []Pt      // shared points
	H, V  int64     // shared zoom arguments
	Calls []int     // operation indices, dealt round-robin to the goroutines
	G     int
	Storm int `json:",omitempty"` // sweep only: number of distinct cheap calls racing one slow call of the same function
	Fan   int `json:",omitempty"` // wide fan-out: this many goroutines run the same long-running calls at once
}

// shared arguments of a workload (read-only for the library)
type c19World struct {
	ext     []string
	sp      []string
	pts     []*object.Point
	tiles   []*object.TileXYZ
	qks     []*object.QuadkeyAndVerticalID
	bqks    []*object.QuadkeyAndVerticalID // bit-form vertical IDs (maxHeight > minHeight)
	eobj    *object.ExtendedSpatialID
	h, v    int64
	radius  float64
	cpts    []*object.Point // end points of the corridor / clearance calls (sized for zoom ch)
	ch      int64
	high    *integrate.HighSpatialID // shared, read-only: the product of three merges (its source-ID list has spare capacity)
	tileOut int64                    // output vertical zoom of the tile conversions (near the tiles' horizontal zoom: small expansions)
}

type c19Op struct {
	name string
	f    func(w *c19World) string
}

// c19Project converts the points to the given EPSG code and back, n times (each call looks the reference system up
// again), and renders everything that was returned.
func c19Project(pts []*object.Point, code int, n int) string {
	var sb strings.Builder
	for i := 0; i < n; i++ {
		pp, e := shape.ConvertPointListToProjectedPointList(pts, code)
		if e != nil {
			sb.WriteString("error;")
			continue
		}
		bk, e := shape.ConvertProjectedPointListToPointList(pp, code)
		if i > 0 {
			continue // the repetitions return the same values: render the first round only
		}
		for _, p := range pp {
			fmt.Fprintf(&sb, "%v,%v,%v;", p.X, p.Y, p.Alt)
		}
		for _, p := range bk {
			fmt.Fprintf(&sb, "%v,%v,%v;", p.Lon(), p.Lat(), p.Alt())
		}
		sb.WriteString(errStr(e))
	}
	return sb.String()
}

// c19ShiftBurst shifts one ID n times (a function that remembers its last argument is hit again and again while other
// goroutines do the same with another ID) and renders every result.
// c19Progress counts finished library calls of the concurrent phases; c19Wait waits for a group of goroutines and gives
// up when NOT A SINGLE call has finished anywhere for 90 seconds while goroutines are still outstanding. The slowest
// single call of a workload takes seconds even under the race detector on a busy machine; no progress at all for 90 s
// means the calls are blocked on each other (a lock taken twice, a writer waiting for readers that wait for it).
var c19Progress atomic.Int64

func c19Wait(wg *sync.WaitGroup) bool {
	done := make(chan struct{})
	go func() { wg.Wait(); close(done) }()
	last, idle := c19Progress.Load(), 0
	for {
		select {
		case <-done:
			return true
		case <-time.After(5 * time.Second):
			if cur := c19Progress.Load(); cur != last {
				last, idle = cur, 0
			} else if idle += 5; idle >= 90 {
				return false
			}
		}
	}
}

// c19FreshCRS converts a 300-point list to an EPSG code this process has not used before (UTM zones, then the rest of
// the bundled table), so that whatever the library does on the FIRST use of a reference system happens while other
// goroutines are converting. The result is not compared (it depends on which code is next).
var c19NextCRS atomic.Int64

func c19FreshCRS(pts []*object.Point) string {
	i := int(c19NextCRS.Add(1) - 1)
	code := 32601 + i
	if i >= 60 {
		code = 32701 + (i - 60)
	}
	if i >= 120 {
		code = knownCRS[i%len(knownCRS)]
	}
	_, _ = shape.ConvertPointListToProjectedPointList(pts, code)
	return "done"
}

func c19ShiftBurst(id string, n int) string {
	var sb strings.Builder
	for i := 0; i < n; i++ {
		sb.WriteString(operated.GetShiftingSpatialID(id, int64(i%3)-1, int64(i%5)-2, int64(i%2)))
		sb.WriteString(";")
	}
	return sb.String()
}

// c19ProjectAll: n conversions, every one rendered (a wrong reference system in any repetition shows)
func c19ProjectAll(pts []*object.Point, code int, n int) string {
	var sb strings.Builder
	for i := 0; i < n; i++ {
		sb.WriteString(c19Project(pts, code, 1))
		sb.WriteString("|")
	}
	return sb.String()
}

func cs(raw []string, err error) string {
	s, _ := canon(raw)
	return fmt.Sprint(len(raw), s, errStr(err))
}

var c19Ops = []c19Op{
	{"shape.GetExtendedSpatialIdsOnPoints", func(w *c19World) string {
		r, e := shape.GetExtendedSpatialIdsOnPoints(w.pts, w.h, w.v)
		return fmt.Sprint(r, errStr(e))
	}},
	{"shape.GetSpatialIdsOnPoints", func(w *c19World) string {
		r, e := shape.GetSpatialIdsOnPoints(w.pts, w.h)
		return fmt.Sprint(r, errStr(e))
	}},
	{"shape.GetPointOnExtendedSpatialId", func(w *c19World) string {
		var sb strings.Builder
		for _, id := range w.ext {
			for _, o := range []enum.PointOption{enum.Vertex, enum.Center} {
				ps, _ := shape.GetPointOnExtendedSpatialId(id, o)
				for _, p := range ps {
					fmt.Fprintf(&sb, "%v,%v,%v;", p.Lon(), p.Lat(), p.Alt())
				}
			}
		}
		return sb.String()
	}},
	{"shape.GetPointOnSpatialId", func(w *c19World) string {
		var sb strings.Builder
		for _, id := range w.sp {
			ps, _ := shape.GetPointOnSpatialId(id, enum.Vertex)
			for _, p := range ps {
				fmt.Fprintf(&sb, "%v,%v,%v;", p.Lon(), p.Lat(), p.Alt())
			}
		}
		return sb.String()
	}},
	{"shape.GetExtendedSpatialIdsOnLine", func(w *c19World) string { return cs(shape.GetExtendedSpatialIdsOnLine(w.pts[0], w.pts[1], w.h, w.v)) }},
	{"shape.GetSpatialIdsOnLine", func(w *c19World) string { return cs(shape.GetSpatialIdsOnLine(w.pts[0], w.pts[1], w.h)) }},
	{"shape.ConvertPointListToProjectedPointList+back", func(w *c19World) string {
		pp, e := shape.ConvertPointListToProjectedPointList(w.pts, 3857)
		if e != nil {
			return "error"
		}
		bk, e := shape.ConvertProjectedPointListToPointList(pp, 3857)
		var sb strings.Builder
		for _, p := range pp {
			fmt.Fprintf(&sb, "%v,%v,%v;", p.X, p.Y, p.Alt)
		}
		for _, p := range bk {
			fmt.Fprintf(&sb, "%v,%v,%v;", p.Lon(), p.Lat(), p.Alt())
		}
		return sb.String() + errStr(e)
	}},
	{"shape.ConvertPointListToProjectedPointList(UTM 54N)+back", func(w *c19World) string { return c19Project(w.pts, 32654, 1) }},
	{"shape.ConvertPointListToProjectedPointList(UTM 53N)+back", func(w *c19World) string { return c19Project(w.pts, 32653, 1) }},
	{"shape.ConvertPointListToProjectedPointList(Lambert-93, unknown code)", func(w *c19World) string {
		return c19Project(w.pts, 2154, 1) + c19Project(w.pts, 99999, 1)
	}},
	{"shape.ConvertSpatialIdsToExtendedSpatialIds", func(w *c19World) string {
		r, e := shape.ConvertSpatialIdsToExtendedSpatialIds(w.sp)
		return fmt.Sprint(r, errStr(e))
	}},
	{"shape.ConvertExtendedSpatialIdsToSpatialIds", func(w *c19World) string {
		r, e := shape.ConvertExtendedSpatialIdsToSpatialIds(w.ext)
		return fmt.Sprint(r, errStr(e))
	}},
	{"integrate.ChangeExtendedSpatialIdsZoom", func(w *c19World) string { return cs(integrate.ChangeExtendedSpatialIdsZoom(w.ext, w.h, w.v)) }},
	{"integrate.ChangeSpatialIdsZoom", func(w *c19World) string { return cs(integrate.ChangeSpatialIdsZoom(w.sp, w.h)) }},
	{"integrate.MergeExtendedSpatialIds", func(w *c19World) string { return cs(integrate.MergeExtendedSpatialIds(w.ext, w.h, w.v)) }},
	{"integrate.MergeSpatialIds", func(w *c19World) string { return cs(integrate.MergeSpatialIds(w.sp, w.h)) }},
	{"integrate.HighSpatialID.Merge(shared argument)", func(w *c19World) string {
		b0, _ := ref.ParseExt(w.ext[0])
		o, err := object.NewExtendedSpatialID(ref.Box{H: b0.H + 1, X: b0.X*2 + 1, Y: b0.Y*2 + 1, V: b0.V + 1, F: b0.F*2 + 1}.Ext())
		if err != nil || w.high == nil {
			return "n/a"
		}
		r := integrate.NewHighSpatialID(integrate.NewUnitDividedSpatialID(o, 0, 0), 1, 1)
		r.Merge(w.high)
		return fmt.Sprint(r.ID(), r.IsDense(), w.high.ID(), w.high.IsDense())
	}},
	{"integrate.HorizontalZoom+VerticalZoom", func(w *c19World) string {
		b, _ := ref.ParseExt(w.ext[0])
		return fmt.Sprint(integrate.HorizontalZoom(b.H, b.X, b.Y, w.h), integrate.VerticalZoom(b.V, b.F, w.v))
	}},
	{"operated.GetShiftingSpatialID", func(w *c19World) string {
		var out []string
		for _, id := range w.ext {
			out = append(out, operated.GetShiftingSpatialID(id, 3, -2, 1))
		}
		return fmt.Sprint(out)
	}},
	{"operated.GetShiftingSpatialID x60 (one ID)", func(w *c19World) string { return c19ShiftBurst(w.ext[len(w.ext)-1], 60) }},
	{"operated.Get6+8+26", func(w *c19World) string {
		return fmt.Sprint(operated.Get6spatialIdsAdjacentToFaces(w.ext[0]), operated.Get8spatialIdsAroundHorizontal(w.ext[0]), operated.Get26spatialIdsAroundVoxel(w.ext[0]))
	}},
	{"operated.GetNspatialIdsAroundVoxcels", func(w *c19World) string { return cs(operated.GetNspatialIdsAroundVoxcels(w.ext, 1, 1)) }},
	{"detector.CheckExtendedSpatialIdsArrayOverlap", func(w *c19World) string {
		r, e := detector.CheckExtendedSpatialIdsArrayOverlap(w.ext, w.ext[:1])
		return fmt.Sprint(r, errStr(e))
	}},
	{"detector.CheckSpatialIdsArrayOverlap", func(w *c19World) string {
		r, e := detector.CheckSpatialIdsArrayOverlap(w.sp, w.sp[len(w.sp)-1:])
		return fmt.Sprint(r, errStr(e))
	}},
	{"detector.CheckSpatialIdsOverlap", func(w *c19World) string {
		r, e := detector.CheckSpatialIdsOverlap(w.sp[0], w.sp[len(w.sp)-1])
		return fmt.Sprint(r, errStr(e))
	}},
	{"transform.ConvertExtendedSpatialIDsToQuadkeysAndVerticalIDs", func(w *c19World) string {
		gs, e := transform.ConvertExtendedSpatialIDsToQuadkeysAndVerticalIDs(w.ext, clamp64(w.h, 1, 31), w.v, 0, 0)
		var raw []string
		for _, g := range gs {
			for _, p := range g.InnerIDList() {
				raw = append(raw, fmt.Sprint(p))
			}
		}
		return cs(raw, e)
	}},
	{"transform.ConvertExtendedSpatialIDsToQuadkeysAndVerticalIDs(bit)", func(w *c19World) string {
		gs, e := transform.ConvertExtendedSpatialIDsToQuadkeysAndVerticalIDs(w.ext[:1], clamp64(w.h, 1, 31), 4, 4096, -4096)
		var raw []string
		for _, g := range gs {
			for _, p := range g.InnerIDList() {
				raw = append(raw, fmt.Sprint(p))
			}
		}
		return cs(raw, e)
	}},
	{"transform.ConvertExtendedSpatialIDsToQuadkeysAndAltitudekeys", func(w *c19World) string {
		b, _ := ref.ParseExt(w.ext[0])
		gs, e := transform.ConvertExtendedSpatialIDsToQuadkeysAndAltitudekeys(w.ext[:1], clamp64(w.h, 1, 31), clamp64(b.V+1, 0, 26), 25, 1<<25)
		var raw []string
		for _, g := range gs {
			for _, p := range g.InnerIDList() {
				raw = append(raw, fmt.Sprint(p))
			}
		}
		return cs(raw[:min(len(raw), 64)], e)
	}},
	{"transform.ConvertQuadkeysAndVerticalIDsToExtendedSpatialIDs", func(w *c19World) string {
		return cs(transform.ConvertQuadkeysAndVerticalIDsToExtendedSpatialIDs(w.qks, clamp64(w.h, 0, 12), clamp64(w.v, 0, 12)))
	}},
	{"transform.ConvertQuadkeysAndVerticalIDsToExtendedSpatialIDs(bit)", func(w *c19World) string {
		return cs(transform.ConvertQuadkeysAndVerticalIDsToExtendedSpatialIDs(w.bqks, clamp64(w.h, 0, w.bqks[0].QuadkeyZoom()+1), 20))
	}},
	{"transform.ConvertQuadkeysAndVerticalIDsToSpatialIDs(bit)", func(w *c19World) string {
		return cs(transform.ConvertQuadkeysAndVerticalIDsToSpatialIDs(w.bqks[:1], clamp64(w.bqks[0].QuadkeyZoom()+1, 0, 35)))
	}},
	{"transform.ConvertSpatialIDsToQuadkeysAndVerticalIDs(bit)", func(w *c19World) string {
		gs, e := transform.ConvertSpatialIDsToQuadkeysAndVerticalIDs(w.sp[:1], clamp64(w.h, 1, 31), 5, 2048, -2048)
		var raw []string
		for _, g := range gs {
			for _, p := range g.InnerIDList() {
				raw = append(raw, fmt.Sprint(p))
			}
		}
		return cs(raw, e)
	}},
	{"transform.ConvertQuadkeysAndVerticalIDsToSpatialIDs", func(w *c19World) string {
		return cs(transform.ConvertQuadkeysAndVerticalIDsToSpatialIDs(w.qks, clamp64(w.h, 0, 12)))
	}},
	{"transform.ConvertTileXYZsToExtendedSpatialIDs", func(w *c19World) string {
		out, e := transform.ConvertTileXYZsToExtendedSpatialIDs(w.tiles, 25, 0, w.tileOut)
		var raw []string
		for _, o := range out {
			raw = append(raw, o.ID())
		}
		return cs(raw, e)
	}},
	{"transform.ConvertTileXYZsToSpatialIDs", func(w *c19World) string { return cs(transform.ConvertTileXYZsToSpatialIDs(w.tiles, 25, 0, w.tileOut)) }},
	{"transform.ConvertExtendedSpatialIDToSpatialIDs", func(w *c19World) string { return cs(transform.ConvertExtendedSpatialIDToSpatialIDs(w.eobj), nil) }},
	{"transform.ConvertZToMinMaxAltitudekey+back", func(w *c19World) string {
		a, b, e := transform.ConvertZToMinMaxAltitudekey(5, 25, 24, 25, 7)
		c, d, e2 := transform.ConvertAltitudekeyToMinMaxZ(6, 24, 25, 25, 7)
		return fmt.Sprint(a, b, errStr(e), c, d, errStr(e2))
	}},
	{"transform.FitClearanceAroundExtendedSpatialID", func(w *c19World) string {
		ids, _ := shape.GetExtendedSpatialIdsOnPoints(w.cpts[:1], w.ch, w.ch)
		a, b, e := transform.FitClearanceAroundExtendedSpatialID(ids[0], w.radius)
		return fmt.Sprint(a, b, errStr(e))
	}},
	{"transform.GetExtendedSpatialIdsWithinRadiusOfLine", func(w *c19World) string {
		return cs(transform.GetExtendedSpatialIdsWithinRadiusOfLine(w.cpts[0], w.cpts[1], w.radius, w.ch, w.ch, false))
	}},
	{"transform.GetExtendedSpatialIdsWithinRadiusOfLine(not measured)", func(w *c19World) string {
		return cs(transform.GetExtendedSpatialIdsWithinRadiusOfLine(w.cpts[0], w.cpts[1], w.radius, w.ch, w.ch, true))
	}},
	{"transform.GetVoxelIDfromSpatialID", func(w *c19World) string { return fmt.Sprint(transform.GetVoxelIDfromSpatialID(w.ext[0])) }},
	{"object.ExtendedSpatialID methods", func(w *c19World) string {
		return fmt.Sprint(w.eobj.ID(), w.eobj.FieldParams(), w.eobj.Higher(0, 0).ID(), w.tiles[0].HZoom(), w.qks[0].Quadkey(), w.pts[0].Lat())
	}},
	{"remaining exported helpers", func(w *c19World) string {
		b, _ := ref.ParseExt(w.ext[0])
		x0, x1, y0, y1 := integrate.HorizontalZoomMinMax(b.H, b.X, b.Y, w.h)
		pts := []*spatial.Point3{{X: 1, Y: 2, Z: 3}, {X: -1, Y: 5, Z: 0.5}, {X: 1, Y: 2, Z: 3}}
		mx, _ := spatial.MaxPoint(pts, spatial.Vector3{X: 1})
		mn, _ := spatial.MinPoint(pts, spatial.Vector3{Y: 1})
		up := spatial.UniqueAppend(pts[:2], pts[2], 1e-9)
		l := spatial.NewLineFromPoints(*pts[0], *pts[1])
		q := spatial.QuatFromAxisAngle(spatial.Vector3{Z: 1}, 0.5)
		m := spatial.NewMatrix3(1, 2, 3, 4, 5, 6, 7, 8, 10)
		mi, _ := common.Min([]int64{w.h, w.v, 3})
		un := common.Union(w.ext, w.ext[:1]) // set-valued: order not specified
		sort.Strings(un)
		return fmt.Sprint(x0, x1, y0, y1, *mx, *mn, len(up), l.ToPoint(0.25), q, m, spatial.NewUnitMatrix3(), spatial.NewVectorFromPoints(*pts[0], *pts[1]),
			common.AlmostEqual(1, 1+1e-12, 1e-10), shape.CheckZoom(w.h), shape.CheckZoom(36), common.DegreeToRadian(180), common.RadianToDegree(1), un,
			common.Include(w.ext, w.ext[0]), mi)
	}},
	{"common helpers", func(w *c19World) string {
		u := common.Unique(w.ext)
		sort.Strings(u)
		i := common.Intersect(w.ext, w.ext[:1])
		d := common.Difference(w.ext, w.ext[:1])
		sort.Strings(d)
		mx, _ := common.Max([]int64{w.h, w.v, 3})
		n := 0
		common.Combinations(6, 3, func([]int64) { n++ })
		q := spatial.RotateBetweenVector(spatial.Vector3{X: 1}, spatial.Vector3{X: -1, Y: 1e-3})
		return fmt.Sprint(u, i, d, mx, n, common.CalculateArithmeticShift(-5, -1), q)
	}},
}

func min(a, b int) int {
	if a < b {
		return a
	}
	return b
}

func genC19(t *rapid.T) *CaseC19 {
	c := &CaseC19{}
	z := rapid.Int64Range(2, 14).Draw(t, "z")
	seed := genBoxAt(t, "seed", z, z)
	half := int64(1) << uint(z-1)
	seed.F = clamp64(seed.F, -half, half-1)
	c.Boxes = []ref.Box{seed}
	for i := rapid.IntRange(1, 5).Draw(t, "more"); i > 0; i-- {
		b := c.Boxes[rapid.IntRange(0, len(c.Boxes)-1).Draw(t, "base")]
		switch rapid.IntRange(0, 3).Draw(t, "rel") {
		case 0:
			c.Boxes = append(c.Boxes, b)
		case 1:
			if b.H < 14 {
				k := ref.Box{H: b.H + 1, X: b.X*2 + 1, Y: b.Y * 2, V: b.V + 1, F: b.F * 2}
				c.Boxes = append(c.Boxes, k)
			}
		default:
			n := ref.Shift(b, 1, 0, 0)
			if spatialValid(n) {
				c.Boxes = append(c.Boxes, n)
			}
		}
	}
	c.H = clamp64(z+rapid.Int64Range(-2, 1).Draw(t, "dh"), 1, 14)
	c.V = clamp64(z+rapid.Int64Range(-2, 2).Draw(t, "dv"), 0, 16)
	p0 := Pt{F64(rapid.Float64Range(-179, 179).Draw(t, "lon")), F64(rapid.Float64Range(-80, 80).Draw(t, "lat")), F64(rapid.Float64Range(-1000, 1000).Draw(t, "alt"))}
	wl, hl, ra := localSizes(p0, c.H, c.V)
	c.Pts = []Pt{p0, clampPt(Pt{F64(p0.Lon.V() + 2.5*wl), F64(p0.Lat.V() - 1.5*hl), F64(p0.Alt.V() + ra)})}
	c.G = rapid.IntRange(2, 16).Draw(t, "g")
	n := rapid.IntRange(8, 40).Draw(t, "ncalls")
	for i := 0; i < n; i++ {
		c.Calls = append(c.Calls, rapid.IntRange(0, len(c19Ops)-1).Draw(t, "op"))
	}
	if rapid.IntRange(0, 79).Draw(t, "fan?") == 41 {
		c.Fan = rapid.IntRange(24, 200).Draw(t, "fan")
	}
	return c
}

func classifyC19(c *CaseC19) (bool, []string) {
	kinds := map[int]struct{}{}
	for _, k := range c.Calls {
		kinds[k] = struct{}{}
	}
	cl := []string{fmt.Sprintf("goroutines=%d", (c.G+3)/4*4)}
	nt := c.G >= 2 && len(kinds) >= 2
	if len(kinds) >= 10 {
		cl = append(cl, ">=10-operation-kinds")
	}
	if c.Fan > 0 {
		cl = append(cl, "wide-fan-out")
	}
	if c.Fan >= 100 {
		cl = append(cl, "fan-out>=100-goroutines")
	}
	return nt, cl
}

func c19BuildWorld(c *CaseC19) *c19World {
	w := &c19World{h: c.H, v: c.V, tileOut: clamp64(c.Boxes[0].H+1, 0, 35)}
	for _, b := range c.Boxes {
		w.ext = append(w.ext, b.Ext())
		w.sp = append(w.sp, b.Spatial())
		tl, _ := object.NewTileXYZ(b.H, b.X, b.Y, 10, 512+b.F%8)
		w.tiles = append(w.tiles, tl)
		w.qks = append(w.qks, object.NewQuadkeyAndVerticalID(b.H, ref.Quadkey(b.H, b.X, b.Y), b.V, b.F, 0, 0))
		w.bqks = append(w.bqks, object.NewQuadkeyAndVerticalID(b.H, ref.Quadkey(b.H, b.X, b.Y), 8, int64(len(w.bqks)*37%256), 64, -64))
	}
	for _, p := range c.Pts {
		w.pts = append(w.pts, p.obj())
	}
	// a merged object shared by all goroutines (only ever passed as the ARGUMENT of Merge)
	for i := int64(0); i < 3; i++ {
		b0 := c.Boxes[0]
		o, err := object.NewExtendedSpatialID(ref.Box{H: b0.H + 1, X: b0.X*2 + i%2, Y: b0.Y*2 + i/2, V: b0.V + 1, F: b0.F * 2}.Ext())
		if err != nil {
			break
		}
		h := integrate.NewHighSpatialID(integrate.NewUnitDividedSpatialID(o, 0, 0), 1, 1)
		if w.high == nil {
			w.high = h
		} else {
			w.high.Merge(h)
		}
	}
	e := c.Boxes[0]
	e.V = clamp64(e.H+1, 0, 35)
	e.F = 0
	w.eobj, _ = object.NewExtendedSpatialID(e.Ext())
	// corridor arguments: a 2.5 x 1.5 voxel segment at zoom ch with a radius of 0.8 voxel widths (|lat| <= 80)
	w.ch = 18
	wl, hl, _ := localSizes(c.Pts[0], w.ch, w.ch)
	w.radius = 0.8 * wl * 111320 * math.Cos(c.Pts[0].Lat.V()*math.Pi/180)
	w.cpts = []*object.Point{w.pts[0], clampPt(Pt{F64(c.Pts[0].Lon.V() + 2.5*wl), F64(c.Pts[0].Lat.V() - 1.5*hl), c.Pts[0].Alt}).obj()}
	return w
}

func raceLogSize() int64 {
	prefix := ""
	for _, kv := range strings.Fields(os.Getenv("GORACE")) {
		if strings.HasPrefix(kv, "log_path=") {
			prefix = strings.TrimPrefix(kv, "log_path=")
		}
	}
	if prefix == "" {
		return 0
	}
	var n int64
	ms, _ := filepath.Glob(prefix + "*")
	for _, m := range ms {
		if st, err := os.Stat(m); err == nil {
			n += st.Size()
		}
	}
	return n
}

func raceLogTail() string {
	prefix := ""
	for _, kv := range strings.Fields(os.Getenv("GORACE")) {
		if strings.HasPrefix(kv, "log_path=") {
			prefix = strings.TrimPrefix(kv, "log_path=")
		}
	}
	ms, _ := filepath.Glob(prefix + "*")
	var sb strings.Builder
	for _, m := range ms {
		b, _ := os.ReadFile(m)
		lines := strings.Split(string(b), "\n")
		for _, l := range lines {
			if strings.Contains(l, "spatial_id_go") || strings.HasPrefix(l, "WARNING") || strings.Contains(l, "by goroutine") {
				sb.WriteString(strings.TrimSpace(l) + " | ")
				if sb.Len() > 1500 {
					return sb.String()
				}
			}
		}
	}
	return sb.String()
}

func checkC19(c *CaseC19, fl *Fails) {
	if len(c.Boxes) == 0 || len(c.Pts) < 2 || len(c.Calls) == 0 || c.G < 1 {
		return
	}
	for _, b := range c.Boxes {
		if !spatialValid(b) || b.H > 16 {
			return
		}
	}
	for _, k := range c.Calls {
		if k < 0 || k >= len(c19Ops) {
			return
		}
	}
	w := c19BuildWorld(c)
	for _, p := range w.pts {
		if p == nil {
			return
		}
	}
	snapExt := append([]string(nil), w.ext...)
	snapSp := append([]string(nil), w.sp...)
	snapPts := []object.Point{*w.pts[0], *w.pts[1]}
	snapTile, snapQk, snapObj := *w.tiles[0], *w.qks[0], *w.eobj
	// sequential reference results
	want := make([]string, len(c.Calls))
	for i, k := range c.Calls {
		t0 := time.Now()
		want[i] = c19Ops[k].f(w)
		if os.Getenv("VERIF_C19_TIMING") != "" {
			Count("ms_"+c19Ops[k].name, time.Since(t0).Microseconds())
			Count("n_"+c19Ops[k].name, 1)
		}
	}
	before := raceLogSize()
	const rounds = 3
	type mismatch struct {
		call int
		got  string
	}
	var mu sync.Mutex
	var bad []mismatch
	for r := 0; r < rounds; r++ {
		var wg sync.WaitGroup
		start := make(chan struct{})
		for g := 0; g < c.G; g++ {
			wg.Add(1)
			go func(g int) {
				defer wg.Done()
				<-start
				// every goroutine runs its share of the calls and its neighbour's share (rotated every round), so that
				// every call is executed by two goroutines at about the same time and different operation kinds
				// meet on the same arguments
				for j := 0; j < len(c.Calls); j++ {
					i := (j + r) % len(c.Calls)
					if j%c.G != g && (j+1)%c.G != g {
						continue
					}
					got := c19Ops[c.Calls[i]].f(w)
					c19Progress.Add(1)
					if got != want[i] {
						mu.Lock()
						bad = append(bad, mismatch{i, got})
						mu.Unlock()
					}
				}
			}(g)
		}
		close(start)
		if !c19Wait(&wg) {
			fl.Add("calls-never-return", "the concurrent calls of this workload stopped returning: no call finished for 90 s while goroutines were still inside the library (run alone, the same calls took milliseconds)")
			fl.Stuck = true
			return
		}
	}
	for _, m := range bad {
		fl.Add("result-differs", "call %d (%s) returned a different result when run concurrently: %.200s / alone: %.200s", m.call, c19Ops[c.Calls[m.call]].name, m.got, want[m.call])
		break
	}
	// after the concurrent phase every call, run alone again, must still return its sequential result
	// (state poisoned by an interleaving would persist)
	for i, k := range c.Calls {
		if got := c19Ops[k].f(w); got != want[i] {
			fl.Add("result-differs-after", "call %d (%s) returns a different result after the concurrent phase: %.200s / before: %.200s", i, c19Ops[k].name, got, want[i])
			break
		}
	}
	if c.Storm > 0 {
		c19Storm(c, fl)
	}
	if c.Fan > 0 {
		c19Fan(c, w, fl)
	}
	if raceLogSize() > before {
		fl.Add("data-race", "race detector report during the workload: %s", raceLogTail())
	}
	if !sameStrings(snapExt, w.ext) || !sameStrings(snapSp, w.sp) || snapPts[0] != *w.pts[0] || snapPts[1] != *w.pts[1] || snapTile != *w.tiles[0] || snapQk != *w.qks[0] || snapObj != *w.eobj {
		fl.Add("shared-argument-modified", "a shared argument changed during the workload")
	}
}

// c19Storm: one slow call and thousands of distinct cheap calls of the same function at the same time (more keys
// than any plausible bounded cache holds), then every cheap call again, alone. Oracle without precomputation:
// the clearance fit is invariant under translation in x and f (all voxels of one row have the same size), so all
// cheap calls must return the same pair, during and after the storm.
func c19Storm(c *CaseC19, fl *Fails) {
	p := c.Pts[0].obj()
	if p == nil {
		return
	}
	ids, err := shape.GetExtendedSpatialIdsOnPoints([]*object.Point{p}, 25, 25)
	if err != nil || len(ids) != 1 {
		return
	}
	b, _ := ref.ParseExt(ids[0])
	key := func(i int) string {
		return ref.Box{H: 25, X: ref.Mod(b.X+int64(i%97)*1009+int64(i), 25), Y: b.Y, V: 25, F: int64(i%7) - 3}.Ext()
	}
	type lay struct{ h, v int64 }
	var mu sync.Mutex
	results := map[int]lay{}
	var wg sync.WaitGroup
	start := make(chan struct{})
	var slow lay
	var slowDone atomic.Bool
	var next atomic.Int64
	wg.Add(1)
	go func() {
		defer wg.Done()
		<-start
		h, v, _ := transform.FitClearanceAroundExtendedSpatialID(key(-1), 4000)
		slow = lay{h, v}
		slowDone.Store(true)
	}()
	// the cheap calls go on until the slow call has finished and at least c.Storm distinct keys were used
	// (capped), so that whatever the slow call leaves behind is still recent when the storm ends
	const maxKeys = 60000
	workers := 8
	for g := 0; g < workers; g++ {
		wg.Add(1)
		go func() {
			defer wg.Done()
			<-start
			for {
				i := int(next.Add(1)) - 1
				if i >= maxKeys || (slowDone.Load() && i >= c.Storm) {
					return
				}
				h, v, _ := transform.FitClearanceAroundExtendedSpatialID(key(i), 1.0)
				mu.Lock()
				results[i] = lay{h, v}
				mu.Unlock()
			}
		}()
	}
	close(start)
	wg.Wait()
	n := len(results)
	Count("c19_storm_keys", int64(n))
	first := results[0]
	for i := 0; i < n; i++ {
		if r, ok := results[i]; ok && r != first {
			fl.Add("storm-result-differs", "clearance fit of %s (1 m) returned %v during the storm, %v for the other voxels of the same row", key(i), r, first)
			return
		}
	}
	// most recent keys first: they are the ones a bounded cache still holds
	for i := n - 1; i >= 0; i-- {
		h, v, _ := transform.FitClearanceAroundExtendedSpatialID(key(i), 1.0)
		if (lay{h, v}) != first {
			fl.Add("storm-result-differs-after", "clearance fit of %s (1 m) returns %v after the storm (the slow call returned %v), %v for the other voxels of the same row", key(i), lay{h, v}, slow, first)
			return
		}
	}
	if h, v, _ := transform.FitClearanceAroundExtendedSpatialID(key(-1), 4000); (lay{h, v}) != slow {
		fl.Add("storm-result-differs-after", "slow clearance fit returned %v during the storm and %v alone", slow, lay{h, v})
	}
}

// c19Fan: "any number of goroutines" - far more goroutines than cores run the same long-running calls at once, so
// that hundreds of calls are in flight (preempted mid-call) at the same moment; first every goroutine runs the same
// operation, then each starts at a different one. Every result must equal the result of the call run alone.
func c19Fan(c *CaseC19, w *c19World, fl *Fails) {
	const fz = 20
	p0 := c.Pts[0]
	wl, hl, ra := localSizes(p0, fz, fz)
	far := clampPt(Pt{F64(p0.Lon.V() + 300.3*wl), F64(p0.Lat.V() - 180.7*hl), F64(p0.Alt.V() + 60.2*ra)}).obj()
	near := p0.obj()
	if far == nil || near == nil {
		return
	}
	b0 := c.Boxes[0]
	var kids []string
	for i := int64(0); i < 512; i++ {
		kids = append(kids, ref.Box{H: b0.H + 3, X: b0.X*8 + i%8, Y: b0.Y*8 + (i/8)%8, V: b0.V + 3, F: b0.F*8 + i/64}.Ext())
	}
	var manyPts []*object.Point
	for i := 0; i < 2000; i++ {
		if p, err := object.NewPoint(139.5+float64(i%50)*0.01, 35.5+float64(i/50)*0.01, float64(i%7)); err == nil {
			manyPts = append(manyPts, p)
		}
	}
	var sp512 []string
	for i := int64(0); i < 512; i++ {
		sp512 = append(sp512, ref.Box{H: 12, X: 100 + i%32, Y: 200 + i/32, V: 12, F: -3}.Spatial())
	}
	// operations come in pairs (even index, odd index) that differ in exactly ONE argument: in the "same function"
	// phase half of the goroutines run one, half the other (calls that are joined, memoised or batched by a key
	// that leaves an argument out)
	heavy := []c19Op{
		{"shape.GetExtendedSpatialIdsOnLine(long)", func(*c19World) string { return cs(shape.GetExtendedSpatialIdsOnLine(near, far, fz, fz)) }},
		{"shape.GetExtendedSpatialIdsOnLine(long, vZoom-1)", func(*c19World) string { return cs(shape.GetExtendedSpatialIdsOnLine(near, far, fz, fz-1)) }},
		{"shape.GetSpatialIdsOnLine(long)", func(*c19World) string { return cs(shape.GetSpatialIdsOnLine(far, near, fz-1)) }},
		{"shape.GetSpatialIdsOnLine(long, zoom-1)", func(*c19World) string { return cs(shape.GetSpatialIdsOnLine(far, near, fz-2)) }},
		{"integrate.ChangeExtendedSpatialIdsZoom(2k)", func(w *c19World) string {
			return cs(integrate.ChangeExtendedSpatialIdsZoom(w.ext[:1], b0.H+4, b0.V+3))
		}},
		{"integrate.ChangeExtendedSpatialIdsZoom(1k, vZoom-1)", func(w *c19World) string {
			return cs(integrate.ChangeExtendedSpatialIdsZoom(w.ext[:1], b0.H+4, b0.V+2))
		}},
		{"integrate.MergeExtendedSpatialIds(512)", func(*c19World) string { return cs(integrate.MergeExtendedSpatialIds(kids, b0.H, b0.V)) }},
		{"integrate.MergeExtendedSpatialIds(512, vZoom+1)", func(*c19World) string { return cs(integrate.MergeExtendedSpatialIds(kids, b0.H, b0.V+1)) }},
		{"operated.GetNspatialIdsAroundVoxcels(3,3)", func(w *c19World) string { return cs(operated.GetNspatialIdsAroundVoxcels(w.ext, 3, 3)) }},
		{"operated.GetNspatialIdsAroundVoxcels(3,2)", func(w *c19World) string { return cs(operated.GetNspatialIdsAroundVoxcels(w.ext, 3, 2)) }},
		{"transform.GetExtendedSpatialIdsWithinRadiusOfLine(measured)", func(w *c19World) string {
			return cs(transform.GetExtendedSpatialIdsWithinRadiusOfLine(w.cpts[0], w.cpts[1], w.radius, w.ch, w.ch, false))
		}},
		{"transform.GetExtendedSpatialIdsWithinRadiusOfLine(not measured)", func(w *c19World) string {
			return cs(transform.GetExtendedSpatialIdsWithinRadiusOfLine(w.cpts[0], w.cpts[1], w.radius, w.ch, w.ch, true))
		}},
		{"shape.ConvertPointListToProjectedPointList(3857, 2000 points)", func(*c19World) string {
			pp, e := shape.ConvertPointListToProjectedPointList(manyPts, 3857)
			return fmt.Sprint(len(pp), errStr(e))
		}},
		{"shape.ConvertPointListToProjectedPointList(first use of another EPSG code)", func(*c19World) string { return c19FreshCRS(manyPts[:300]) }},
		{"operated.GetShiftingSpatialID(one ID) x300", func(w *c19World) string { return c19ShiftBurst(w.ext[0], 300) }},
		{"operated.GetShiftingSpatialID(another ID) x300", func(w *c19World) string {
			b, _ := ref.ParseExt(w.ext[0])
			return c19ShiftBurst(ref.Box{H: b.H + 14, X: b.X<<14 + 7007, Y: b.Y<<14 + 9, V: b.V + 16, F: b.F<<16 + 250}.Ext(), 300)
		}},
		{"shape.ConvertPointListToProjectedPointList(UTM 54N) x40", func(w *c19World) string { return c19ProjectAll(w.pts, 32654, 40) }},
		{"shape.ConvertPointListToProjectedPointList(EPSG:900913) x40", func(w *c19World) string { return c19ProjectAll(w.pts, 900913, 40) }},
		{"detector.CheckSpatialIdsArrayOverlap(512)", func(*c19World) string {
			r, e := detector.CheckSpatialIdsArrayOverlap(sp512, []string{ref.Box{H: 14, X: 4*131 + 1, Y: 4*215 + 2, V: 14, F: -9}.Spatial()})
			return fmt.Sprint(r, errStr(e))
		}},
		{"detector.CheckSpatialIdsArrayOverlap(512, other id)", func(*c19World) string {
			r, e := detector.CheckSpatialIdsArrayOverlap(sp512, []string{ref.Box{H: 14, X: 4*131 + 1, Y: 4*215 + 2, V: 14, F: -17}.Spatial()})
			return fmt.Sprint(r, errStr(e))
		}},
	}
	want := make([]string, len(heavy))
	for i, op := range heavy {
		t0 := time.Now()
		want[i] = op.f(w)
		if os.Getenv("VERIF_C19_TIMING") != "" {
			Count("fan_us_"+op.name, time.Since(t0).Microseconds())
		}
	}
	var mu sync.Mutex
	var bad string
	run := func(pick func(g, step int) int, steps int) {
		var wg sync.WaitGroup
		start := make(chan struct{})
		for g := 0; g < c.Fan; g++ {
			wg.Add(1)
			go func(g int) {
				defer wg.Done()
				<-start
				for s := 0; s < steps; s++ {
					k := pick(g, s)
					got := heavy[k].f(w)
					c19Progress.Add(1)
					if got != want[k] {
						mu.Lock()
						if bad == "" {
							bad = fmt.Sprintf("%s returned a different result with %d goroutines in flight: %.200s / alone: %.200s", heavy[k].name, c.Fan, got, want[k])
						}
						mu.Unlock()
					}
				}
			}(g)
		}
		close(start)
		if !c19Wait(&wg) {
			fl.Add("calls-never-return", "fan-out of %d goroutines: no call finished for 90 s while goroutines were still inside the library (run alone, every one of these calls returned)", c.Fan)
			fl.Stuck = true
		}
	}
	for k := 0; k+1 < len(heavy) && !fl.Stuck; k += 2 { // all goroutines in the same function, two argument variants
		k := k
		run(func(g, _ int) int { return k + g%2 }, 1)
	}
	if fl.Stuck {
		return
	}
	run(func(g, s int) int { return (g + s) % len(heavy) }, 3) // mixed
	if fl.Stuck {
		return
	}
	Count("c19_fan_calls", int64(c.Fan*(len(heavy)/2+3)))
	if bad != "" {
		fl.Add("fan-result-differs", "%s", bad)
	}
	for k, op := range heavy {
		if got := op.f(w); got != want[k] {
			fl.Add("fan-result-differs-after", "%s returns a different result after the fan-out: %.200s / before: %.200s", op.name, got, want[k])
			break
		}
	}
}

func init() {
	register(PropT[CaseC19]{
		ID:   "C19",
		Rule: "rapid: a workload = 8..40 calls drawn from a table of 44 closures covering every exported function and method of every package (shape, integrate, operated, detector, transform, object, common, spatial) over ONE shared set of arguments (ID slices in both notations with repeated / nested / neighbouring entries, two *Point, *TileXYZ, *QuadkeyAndVerticalID, *ExtendedSpatialID), executed by G in 2..16 goroutines, 3 rounds, released by a start barrier; every goroutine runs an overlapping share of the call list so that different operations meet on the same arguments. Test binary built with -race. Non-trivial: >=2 goroutines and >=2 different operation kinds. Distinct = hash of the workload.",
		Assumptions: []string{
			"oracle: (1) no race-detector report is written during the workload (GORACE log_path is polled after every workload), (2) every concurrent call returns the canonicalised result the same call returned sequentially before, (3) shared arguments are unchanged afterwards",
			"schedules are sampled by real parallel execution (16 cores), not enumerated: a race that needs a rare interleaving can be missed; unsynchronised writes on a hot path are reported within the first workloads",
		},
		Gen: genC19, Check: checkC19, Classify: classifyC19,
		Sweep: func(tier string, emit func(*CaseC19)) {
			fan := []int{160, 384}
			if tier != "quick" {
				fan = []int{64, 100, 160, 256, 384, 640, 1000, 2000}
			}
			for i, n := range fan {
				emit(&CaseC19{Boxes: []ref.Box{{H: 6, X: 13 + int64(i), Y: 27, V: 6, F: -2}, {H: 6, X: 14 + int64(i), Y: 27, V: 6, F: -2}}, Pts: []Pt{{F64(139.767125 - float64(i)), F64(35.681236 + float64(i)), F64(10)}, {F64(139.7672), F64(35.6813), F64(12)}}, H: 6, V: 6, Calls: []int{4, 9}, G: 2, Fan: n})
			}
			if tier == "quick" {
				return
			}
			emit(&CaseC19{Boxes: []ref.Box{{H: 5, X: 3, Y: 3, V: 5, F: -1}}, Pts: []Pt{{F64(139.767125), F64(35.681236), F64(10)}, {F64(139.7672), F64(35.6813), F64(12)}}, H: 5, V: 5, Calls: []int{0, 9, 14}, G: 2, Storm: 9000})
		},
		SweepScopes: func(tier string) []string {
			fanScope := "wide fan-out: 160 and 384 (thorough: 64..2000) goroutines run seven long-running calls (540-voxel lines, 2k-ID zoom change, 512-ID merge, 7x7x7 neighbourhoods, corridor, 512-entry overlap) first all in the same function, then mixed; every result compared with the call run alone, during and after"
			if tier == "quick" {
				return []string{fanScope}
			}
			return []string{fanScope, "one storm: a slow clearance fit racing >= 9000 distinct cheap clearance fits on 8 goroutines (they continue until the slow call is done), then all of them again alone, most recent first (translation-invariance oracle)"}
		},
		ReplayRuns: 8,
		// a workload is expensive and owns the scheduler: no re-checks under other GOMAXPROCS / after malformed calls /
		// of early cases (the sequential properties do those)
		NoRevisit: true,
	})
}
