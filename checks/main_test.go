package checks

import (
	"encoding/binary"
	"encoding/json"
	"flag"
	"fmt"
	"os"
	"sort"
	"strconv"
	"testing"

	"pgregory.net/rapid"
)

// TestProp is the single entry point; the driver (../check) selects property and mode by
// environment:
//
//	VERIF_PROP        property id (C01..C20)
//	VERIF_MODE        rapid | sweep | replay | witness | list
//	VERIF_TIER        quick | thorough (sweeps may enumerate less in quick)
//	VERIF_STATS       file to write statistics to
//	VERIF_REPLAY      replay file (mode replay)
//	VERIF_REPLAY_DIR  where failing cases are written
//	VERIF_TAG         suffix for replay file names
//
// plus rapid's own -rapid.checks / -rapid.seed flags.
// revisitEvery: in a generated run, the cases kept from evaluations 1, 2, 4, 8, ... are checked again after every
// revisitEvery evaluations. A case that passed and fails later shows that a result depends on the calls made in
// between (a cache that goes stale after many different keys, an evicted slot that is still indexed, a counter that
// wraps): "for every history".
const revisitEvery = 2048

func runRapid(t *testing.T, p *prop, s *stats, tag string, replayOf string) {
	var kept [][]byte
	var keptAt []int
	n := 0
	failed := false
	var hist *replayHistory // set at the first failure: what it takes to repeat the generated run up to it
	rapid.Check(t, func(rt *rapid.T) {
		if failed && replayOf != "" {
			return // a history replay stops at the first failure (no shrinking)
		}
		c := p.gen(rt)
		s.record(p, c)
		if fails := runCheck(p, s, c); len(fails) > 0 {
			if hist == nil {
				hist = &replayHistory{Seed: flag.Lookup("rapid.seed").Value.String(), Checks: n}
			}
			failed = true
			path := replayOf
			if replayOf == "" {
				path = writeReplayH(p, s, c, fails, tag, hist)
				stopIfStuck(s)
			} else {
				s.mu.Lock()
				s.Violations = append(s.Violations, violation{Replay: replayOf, Fails: fails})
				s.mu.Unlock()
			}
			rt.Fatalf("property %s violated (%s): %s [replay %s]", p.id, fails[0].Kind, fails[0].Msg, path)
		}
		if p.noRevisit || failed {
			return
		}
		n++
		if n&(n-1) == 0 && len(kept) < 28 {
			if b, err := json.Marshal(c); err == nil {
				kept = append(kept, b)
				keptAt = append(keptAt, n)
			}
		}
		if n%revisitEvery != 0 {
			return
		}
		for i, b := range kept {
			c2 := p.newCase()
			if json.Unmarshal(b, c2) != nil {
				continue
			}
			Count("revisited_cases", 1)
			fails := runCheckOnce(p, s, c2)
			if len(fails) == 0 {
				continue
			}
			failed = true
			for j := range fails {
				fails[j].Msg = fmt.Sprintf("the case passed as evaluation %d of this run and fails when checked again after %d evaluations: %s", keptAt[i], n, fails[j].Msg)
				fails[j].Kind = "revisit:" + fails[j].Kind
			}
			path := replayOf
			if hist == nil {
				hist = &replayHistory{Seed: flag.Lookup("rapid.seed").Value.String(), Checks: n, First: keptAt[i]}
			}
			if replayOf == "" {
				path = writeReplayH(p, s, c2, fails, tag, hist)
			} else {
				s.mu.Lock()
				s.Violations = append(s.Violations, violation{Replay: replayOf, Fails: fails})
				s.mu.Unlock()
			}
			rt.Fatalf("property %s violated (%s): %s [replay %s]", p.id, fails[0].Kind, fails[0].Msg, path)
		}
	})
}

func TestProp(t *testing.T) {
	id := os.Getenv("VERIF_PROP")
	mode := os.Getenv("VERIF_MODE")
	if id == "" || mode == "" {
		t.Skip("VERIF_PROP / VERIF_MODE not set (run through ../check)")
	}
	if mode == "list" {
		ids := []string{}
		for k := range registry {
			ids = append(ids, k)
		}
		sort.Strings(ids)
		for _, k := range ids {
			fmt.Println("PROP", k)
		}
		return
	}
	p := registry[id]
	if p == nil {
		t.Fatalf("HARNESS-ERROR unknown property %s", id)
	}
	tier := os.Getenv("VERIF_TIER")
	if tier == "" {
		tier = "quick"
	}
	tag := os.Getenv("VERIF_TAG")
	if tag == "" {
		tag = mode
	}
	s := newStats(id, mode)
	s.Rule, s.Assumptions = p.rule+" Later additions to the generator and sweep (classes found through seeded changes: long lists, spellings, far / decimal relatives, re-used objects, twins, ...) are listed per property in DESIGN.md section 4; the harness also re-checks cases after related calls, under other GOMAXPROCS values, after refused malformed calls and again after thousands of other cases (see coverage.counters).", p.assumptions
	cur = s
	defer s.write()
	defer func() {
		if r := recover(); r != nil {
			if he, ok := r.(harnessError); ok {
				s.HarnessErr = he.msg
				fmt.Println("HARNESS-ERROR", he.msg)
				t.Fail()
				return
			}
			panic(r)
		}
	}()

	switch mode {
	case "rapid":
		runRapid(t, p, s, tag, "")
	case "sweep":
		if p.sweep == nil {
			return
		}
		if p.sweepScopes != nil {
			s.SweepScopes = p.sweepScopes(tier)
		}
		nviol := 0
		p.sweep(tier, func(c any) {
			s.record(p, c)
			if nviol >= 5 {
				return
			}
			if fails := runCheck(p, s, c); len(fails) > 0 {
				nviol++
				path := writeReplay(p, s, c, fails, fmt.Sprintf("%s-%d", tag, nviol))
				t.Errorf("property %s violated in sweep (%s): %s [replay %s]", id, fails[0].Kind, fails[0].Msg, path)
				stopIfStuck(s)
			}
		})
	case "replay":
		b, err := os.ReadFile(os.Getenv("VERIF_REPLAY"))
		if err != nil {
			t.Fatalf("HARNESS-ERROR %v", err)
		}
		var rf replayFile
		if err := json.Unmarshal(b, &rf); err != nil {
			t.Fatalf("HARNESS-ERROR %v", err)
		}
		c := p.newCase()
		if err := json.Unmarshal(rf.Case, c); err != nil {
			t.Fatalf("HARNESS-ERROR %v", err)
		}
		for i := 0; i < p.replayRuns; i++ {
			s.record(p, c)
			if fails := runCheck(p, s, c); len(fails) > 0 {
				s.mu.Lock()
				s.Violations = append(s.Violations, violation{Replay: os.Getenv("VERIF_REPLAY"), Fails: fails})
				s.mu.Unlock()
				stopIfStuck(s)
				t.Fatalf("property %s violated on replay (%s): %s", id, fails[0].Kind, fails[0].Msg)
			}
		}
		if rf.History != nil && rf.History.Seed != "" && rf.History.Seed != "0" {
			// the case alone passes: the failure depended on what the process did before. Repeat the generated run
			// (a pure function of the seed) up to the evaluation that failed.
			fmt.Println("the case alone passes; repeating the generated run that preceded the failure")
			_ = flag.Set("rapid.seed", rf.History.Seed)
			_ = flag.Set("rapid.checks", strconv.Itoa(rf.History.Checks+1))
			_ = flag.Set("rapid.nofailfile", "true")
			runRapid(t, p, s, tag, os.Getenv("VERIF_REPLAY"))
		}
	case "witness":
		// replay the witnesses of the findings listed for this property:
		//  known -> must still fail and be explained by its matcher (else it is reported as not reproducing)
		//  fixed -> must pass (else violation)
		for _, k := range loadFindings() {
			if k.Property != id || len(k.Witness) == 0 {
				continue
			}
			c := p.newCase()
			if err := json.Unmarshal(k.Witness, c); err != nil {
				t.Fatalf("HARNESS-ERROR witness of %s: %v", k.ID, err)
			}
			before := s.Excluded[k.ID]
			var fails []Fail
			for i := 0; i < p.replayRuns && len(fails) == 0 && s.Excluded[k.ID] == before; i++ {
				fails = runCheck(p, s, c)
			}
			switch k.Status {
			case "known":
				if s.Excluded[k.ID] > before {
					fmt.Printf("WITNESS %s reproduces\n", k.ID)
				} else {
					fmt.Printf("WITNESS %s does-not-reproduce\n", k.ID)
				}
				s.Excluded[k.ID] = before
				if len(fails) > 0 {
					path := writeReplay(p, s, c, fails, "witness-"+k.ID)
					t.Errorf("witness of %s fails in a way its matcher does not explain: %s [replay %s]", k.ID, fails[0].Msg, path)
				}
			case "fixed":
				if len(fails) > 0 {
					path := writeReplay(p, s, c, fails, "regression-"+k.ID)
					t.Errorf("fixed finding %s is back: %s [replay %s]", k.ID, fails[0].Msg, path)
				} else {
					fmt.Printf("WITNESS %s fixed-and-passing\n", k.ID)
				}
			}
		}
	default:
		t.Fatalf("HARNESS-ERROR unknown mode %s", mode)
	}
}

// TestMergeHashes merges the per-shard hash files named in VERIF_MERGE (':'-separated) and
// prints the number of distinct hashes.
func TestMergeHashes(t *testing.T) {
	spec := os.Getenv("VERIF_MERGE")
	if spec == "" {
		t.Skip()
	}
	set := map[uint64]struct{}{}
	start := 0
	for i := 0; i <= len(spec); i++ {
		if i == len(spec) || spec[i] == ':' {
			if i > start {
				b, err := os.ReadFile(spec[start:i])
				if err == nil {
					for j := 0; j+8 <= len(b); j += 8 {
						set[binary.LittleEndian.Uint64(b[j:])] = struct{}{}
					}
				}
			}
			start = i + 1
		}
	}
	fmt.Println("DISTINCT " + strconv.Itoa(len(set)))
}
