// Package checks holds one generated check per property (cXX.go) and the small harness
// they share: case recording, known-finding matching, replay files, statistics.
package checks

import (
	"encoding/binary"
	"encoding/json"
	"fmt"
	"hash/fnv"
	"math"
	"os"
	"runtime"
	"runtime/debug"
	"sort"
	"strconv"
	"strings"
	"sync"
	"time"

	"pgregory.net/rapid"
)

// F64 is a float64 that survives JSON bit-exactly (also Inf / NaN / -0).
type F64 float64

func (f F64) MarshalJSON() ([]byte, error) {
	return json.Marshal(strconv.FormatFloat(float64(f), 'g', -1, 64))
}

func (f *F64) UnmarshalJSON(b []byte) error {
	var s string
	if err := json.Unmarshal(b, &s); err != nil {
		return err
	}
	v, err := strconv.ParseFloat(s, 64)
	if err != nil {
		return err
	}
	*f = F64(v)
	return nil
}

func (f F64) V() float64 { return float64(f) }

// Fail is one failed assertion of a case.
type Fail struct {
	Kind string `json:"kind"`
	Msg  string `json:"msg"`
}

// Fails collects the failed assertions of one case, so that a known finding does not hide
// other failures of the same case.
type Fails struct {
	List []Fail
	// Stuck: library calls of this case never returned (goroutines are still blocked): the process cannot go on to
	// other cases; the runner writes the replay file and the statistics and exits.
	Stuck bool
}

func (f *Fails) Add(kind, format string, args ...any) {
	if len(f.List) < 20 {
		f.List = append(f.List, Fail{kind, fmt.Sprintf(format, args...)})
	}
}

func (f *Fails) Has() bool { return len(f.List) > 0 }

// PropT is the typed definition of one property check.
type PropT[C any] struct {
	ID          string
	Rule        string   // how cases are generated and what makes one non-trivial
	Assumptions []string // tolerance bands, domain bounds
	Gen         func(*rapid.T) *C
	Check       func(*C, *Fails)
	Classify    func(*C) (nontrivial bool, classes []string)
	Sweep       func(tier string, emit func(*C)) // deterministic enumeration (optional)
	SweepScopes func(tier string) []string       // what the sweep enumerates completely
	ReplayRuns  int                              // replay repeats (for order / schedule dependent properties)
	// Related returns cases that share all but one component with c (optional). After c was checked they are checked too,
	// and then c is checked again: a result must not depend on which related calls were made before (a cache keyed by
	// a subset of the arguments, a memo that is not invalidated, a reused scratch buffer).
	Related func(*C) []*C
	// NoRevisit switches off the long-history re-check (cases kept from early in a run are checked again every few
	// thousand evaluations): for properties whose single cases are expensive or schedule dependent.
	NoRevisit bool
}

// prop is the untyped form used by the runner.
type prop struct {
	id          string
	rule        string
	assumptions []string
	gen         func(*rapid.T) any
	newCase     func() any
	check       func(any, *Fails)
	classify    func(any) (bool, []string)
	sweep       func(string, func(any))
	sweepScopes func(string) []string
	replayRuns  int
	related     func(any) []any
	noRevisit   bool
}

var registry = map[string]*prop{}

func register[C any](p PropT[C]) {
	q := &prop{
		id: p.ID, rule: p.Rule, assumptions: p.Assumptions,
		gen:        func(t *rapid.T) any { return p.Gen(t) },
		newCase:    func() any { return new(C) },
		check:      func(c any, f *Fails) { p.Check(c.(*C), f) },
		classify:   func(c any) (bool, []string) { return p.Classify(c.(*C)) },
		replayRuns: p.ReplayRuns,
		noRevisit:  p.NoRevisit,
	}
	if p.Sweep != nil {
		q.sweep = func(tier string, emit func(any)) { p.Sweep(tier, func(c *C) { emit(c) }) }
	}
	if p.SweepScopes != nil {
		q.sweepScopes = p.SweepScopes
	}
	if p.Related != nil {
		q.related = func(c any) []any {
			rs := p.Related(c.(*C))
			out := make([]any, len(rs))
			for i, r := range rs {
				out[i] = r
			}
			return out
		}
	}
	if q.replayRuns == 0 {
		q.replayRuns = 1
	}
	registry[p.ID] = q
}

// ---------------------------------------------------------------------------------------------
// known findings

type finding struct {
	ID       string          `json:"id"`
	Property string          `json:"property"`
	Status   string          `json:"status"` // known | fixed
	Matcher  string          `json:"matcher"`
	Summary  string          `json:"summary"`
	Commit   string          `json:"commit,omitempty"`
	Witness  json.RawMessage `json:"witness,omitempty"`
}

type findingsFile struct {
	Findings []finding `json:"findings"`
}

// matchers: named predicates over (case, failure) identifying one root cause as narrowly as possible.
var matchers = map[string]func(c any, f Fail) bool{}

var (
	findingsOnce sync.Once
	findings     []finding
)

func loadFindings() []finding {
	findingsOnce.Do(func() {
		path := os.Getenv("VERIF_FINDINGS")
		if path == "" {
			path = "../known_findings.json"
		}
		b, err := os.ReadFile(path)
		if err != nil {
			return
		}
		var ff findingsFile
		if err := json.Unmarshal(b, &ff); err != nil {
			panic("known_findings.json: " + err.Error())
		}
		findings = ff.Findings
	})
	return findings
}

// matchKnown returns the id of the known (unfixed) finding that explains failure f of case c.
func matchKnown(propID string, c any, f Fail) string {
	for _, k := range loadFindings() {
		if k.Property != propID || k.Status != "known" {
			continue
		}
		m := matchers[k.Matcher]
		if m != nil && m(c, f) {
			return k.ID
		}
	}
	return ""
}

// ---------------------------------------------------------------------------------------------
// statistics

type stats struct {
	mu           sync.Mutex
	Property     string                     `json:"property"`
	Mode         string                     `json:"mode"`
	Rule         string                     `json:"rule"`
	Assumptions  []string                   `json:"assumptions"`
	Evaluations  int64                      `json:"evaluations"`
	Nontrivial   int64                      `json:"nontrivial"`
	Classes      map[string]int64           `json:"classes"`
	Excluded     map[string]int64           `json:"excluded_known"`
	Samples      []json.RawMessage          `json:"samples"`
	ClassSamples map[string]json.RawMessage `json:"class_samples"`
	LastSample   json.RawMessage            `json:"last_sample,omitempty"`
	Violations   []violation                `json:"violations"`
	HarnessErr   string                     `json:"harness_error,omitempty"`
	SweepScopes  []string                   `json:"sweep_scopes,omitempty"`
	Extra        map[string]int64           `json:"extra,omitempty"`
	hashes       map[uint64]struct{}
}

type violation struct {
	Replay string `json:"replay"`
	Fails  []Fail `json:"fails"`
}

func newStats(id, mode string) *stats {
	return &stats{Property: id, Mode: mode, Classes: map[string]int64{}, Excluded: map[string]int64{},
		ClassSamples: map[string]json.RawMessage{}, hashes: map[uint64]struct{}{}, Extra: map[string]int64{}}
}

var cur *stats // statistics of the running process (one property per process)

// Count adds to a free-form counter reported in the evidence.
func Count(name string, n int64) {
	if cur == nil {
		return
	}
	cur.mu.Lock()
	cur.Extra[name] += n
	cur.mu.Unlock()
}

func (s *stats) record(p *prop, c any) {
	nt, classes := p.classify(c)
	s.mu.Lock()
	defer s.mu.Unlock()
	s.Evaluations++
	for _, cl := range classes {
		s.Classes[cl]++
	}
	if !nt {
		return
	}
	s.Nontrivial++
	b, err := json.Marshal(c)
	if err != nil {
		return
	}
	h := fnv.New64a()
	h.Write(b)
	hv := h.Sum64()
	if _, seen := s.hashes[hv]; seen {
		return
	}
	s.hashes[hv] = struct{}{}
	if len(b) < 6000 {
		if len(s.Samples) < 3 {
			s.Samples = append(s.Samples, b)
		}
		for _, cl := range classes {
			if _, ok := s.ClassSamples[cl]; !ok && len(s.ClassSamples) < 16 {
				s.ClassSamples[cl] = b
			}
		}
		s.LastSample = b
	}
}

func (s *stats) write() {
	path := os.Getenv("VERIF_STATS")
	if path == "" {
		return
	}
	s.mu.Lock()
	defer s.mu.Unlock()
	b, _ := json.MarshalIndent(s, "", " ")
	_ = os.WriteFile(path, b, 0o644)
	hs := make([]uint64, 0, len(s.hashes))
	for h := range s.hashes {
		hs = append(hs, h)
	}
	sort.Slice(hs, func(i, j int) bool { return hs[i] < hs[j] })
	buf := make([]byte, 8*len(hs))
	for i, h := range hs {
		binary.LittleEndian.PutUint64(buf[8*i:], h)
	}
	_ = os.WriteFile(path+".hashes", buf, 0o644)
}

// ---------------------------------------------------------------------------------------------
// running one case

type replayFile struct {
	Property string          `json:"property"`
	Case     json.RawMessage `json:"case"`
	Fails    []Fail          `json:"fails,omitempty"`
	Note     string          `json:"note,omitempty"`
	// History is set when the failure depends on what the process did before (a case that passed early in a generated
	// run fails when checked again later): the replay repeats the generated run (a pure function of seed and count).
	History *replayHistory `json:"history,omitempty"`
}

type replayHistory struct {
	Seed   string `json:"rapid_seed"`
	Checks int    `json:"evaluations"`
	First  int    `json:"first_checked_at"`
}

// libraryPanic decides from a stack trace whether a recovered panic came out of the code
// under test (violation) or out of the harness itself (inconclusive).
func libraryPanic(stack string) bool {
	lines := strings.Split(stack, "\n")
	seenPanic := false
	for _, l := range lines {
		if strings.HasPrefix(l, "panic(") {
			seenPanic = true
			continue
		}
		if !seenPanic || strings.HasPrefix(l, "\t") {
			continue
		}
		if strings.HasPrefix(l, "verif/") {
			return false
		}
		if strings.HasPrefix(l, "github.com/trajectoryjp/") {
			return true
		}
	}
	return false
}

type harnessError struct{ msg string }

// runCheck checks one case; if the property defines related cases it then checks those and the case once more
// (history independence). Failures of the repeated check are reported with the kind prefix "after-related:".
func runCheck(p *prop, s *stats, c any) (unexplained []Fail) {
	if ms := os.Getenv("VERIF_SLOW_MS"); ms != "" {
		t0 := time.Now()
		defer func() {
			if lim, _ := strconv.Atoi(ms); time.Since(t0) > time.Duration(lim)*time.Millisecond {
				fmt.Printf("SLOW %v %s\n", time.Since(t0), jsonStr(c))
			}
		}()
	}
	unexplained = runCheckOnce(p, s, c)
	if len(unexplained) > 0 {
		return unexplained
	}
	if f := runUnderOtherProcs(p, s, c); len(f) > 0 {
		return f
	}
	if f := runAfterMalformed(p, s, c); len(f) > 0 {
		return f
	}
	if p.related == nil {
		return nil
	}
	for _, r := range p.related(c) {
		Count("related_cases_checked", 1)
		if f := runCheckOnce(p, s, r); len(f) > 0 {
			for i := range f {
				f[i].Msg = "related case " + jsonStr(r) + ": " + f[i].Msg
			}
			return f
		}
	}
	again := runCheckOnce(p, s, c)
	for i := range again {
		again[i].Kind = "after-related:" + again[i].Kind
		again[i].Msg = "the case passed when checked first, but fails after calls with related arguments: " + again[i].Msg
	}
	return again
}

// stuckPending is set when a check found library calls that never return (see Fails.Stuck).
var stuckPending bool

// stopIfStuck ends the process after a "calls never returned" failure was recorded: replay file and statistics are on
// disk, the exit code is that of a failed test.
func stopIfStuck(s *stats) {
	if !stuckPending {
		return
	}
	s.write()
	fmt.Println("FAIL: library calls of the last case never returned; the process stops here (replay file and statistics written)")
	os.Exit(1)
}

var malformedEvals int

// runAfterMalformed: a refused call must leave nothing behind. Every 8th evaluation, after the case passed, every
// ID-taking function of the library is called with malformed IDs whose leading fields are well-formed and name another
// voxel (too few / too many fields, a non-integer field late in the string) - all of them are refused - and the case is
// checked again; a failure carries the kind prefix "after-malformed:" (a parser that stores fields as it reads them into
// a scratch object it later trusts, a cache entry written before validation finished).
func runAfterMalformed(p *prop, s *stats, c any) []Fail {
	malformedEvals++
	if (malformedEvals%8 != 0 && os.Getenv("VERIF_MODE") != "replay") || p.noRevisit {
		return nil
	}
	poisonWithMalformedIDs()
	Count("rechecked_after_malformed_calls", 1)
	f := runCheckOnce(p, s, c)
	for i := range f {
		f[i].Kind = "after-malformed:" + f[i].Kind
		f[i].Msg = "the case passed when checked first, but fails after refused calls with malformed IDs: " + f[i].Msg
	}
	return f
}

var poisonExt = []string{"20/1/2", "20/1/2/20", "20/1/2/20/3/9", "6/1/x/20/3", "6/1/2/20/x", "6/1/2/x/3", "7/5/6/7/"}
var poisonSpatial = []string{"20/3/1", "20/3/1/2/9", "6/x/1/2", "6/3/1/x", "7/3/5/"}

func poisonWithMalformedIDs() {
	var sink Fails
	for i := range c15IDTargets {
		tg := &c15IDTargets[i]
		bad := poisonExt
		if tg.arity == 4 {
			bad = poisonSpatial
		}
		for _, b := range bad {
			c15CallOnly(&CaseC15{Fn: tg.name, IDs: []string{b}, IDs2: []string{b}, Z: []int64{3, 3}}, &sink)
		}
	}
}

// procsWanted is implemented by cases that ask to be checked under every other scheduler width (large outputs, where
// a library would plausibly split the work among runtime.GOMAXPROCS(0) workers).
type procsWanted interface{ WantsProcs() bool }

// procCycle: scheduler widths other than this machine's (16): one, odd, and non-powers of two.
var procCycle = []int{3, 1, 6, 12, 5, 7, 24, 2}

var procEvals int

// procsForced: sweep cases (by pointer) that are to be checked under every other scheduler width (large lists / outputs).
var procsForced = map[any]bool{}

func allProcs[C any](c *C) *C {
	procsForced[c] = true
	return c
}

// runUnderOtherProcs: a result must not depend on the number of CPUs the process may use. Every 61st evaluation (and
// every case that asks for it) is checked again with runtime.GOMAXPROCS set to another value; a failure carries the
// kind prefix "gomaxprocs=N:". Replays run under all of them.
func runUnderOtherProcs(p *prop, s *stats, c any) []Fail {
	if p.noRevisit { // schedule dependent / expensive properties manage the scheduler themselves
		return nil
	}
	procEvals++
	var widths []int
	if w, ok := c.(procsWanted); (ok && w.WantsProcs()) || procsForced[c] || os.Getenv("VERIF_MODE") == "replay" {
		widths = procCycle
	} else if procEvals%61 == 0 {
		widths = []int{procCycle[(procEvals/61)%len(procCycle)]}
	}
	for _, n := range widths {
		old := runtime.GOMAXPROCS(n)
		f := runCheckOnce(p, s, c)
		runtime.GOMAXPROCS(old)
		Count("checked_under_other_gomaxprocs", 1)
		if len(f) > 0 {
			for i := range f {
				f[i].Kind = fmt.Sprintf("gomaxprocs=%d:%s", n, f[i].Kind)
				f[i].Msg = fmt.Sprintf("the case passes with GOMAXPROCS=%d and fails with GOMAXPROCS=%d: %s", old, n, f[i].Msg)
			}
			return f
		}
	}
	return nil
}

// runCheckOnce executes the property's check on one case with panic classification and
// known-finding exclusion. It returns the failures that are NOT explained by a known finding.
func runCheckOnce(p *prop, s *stats, c any) (unexplained []Fail) {
	var fl Fails
	func() {
		defer func() {
			if r := recover(); r != nil {
				if he, ok := r.(harnessError); ok {
					panic(he)
				}
				st := string(debug.Stack())
				if libraryPanic(st) {
					fl.Add("panic", "library panicked: %v\n%s", r, trimStack(st))
				} else {
					panic(harnessError{fmt.Sprintf("harness panic: %v\n%s", r, st)})
				}
			}
		}()
		p.check(c, &fl)
	}()
	if fl.Stuck {
		stuckPending = true
	}
	for _, f := range fl.List {
		if id := matchKnown(p.id, c, f); id != "" {
			s.mu.Lock()
			s.Excluded[id]++
			s.mu.Unlock()
			continue
		}
		unexplained = append(unexplained, f)
	}
	return unexplained
}

func trimStack(st string) string {
	lines := strings.Split(st, "\n")
	var out []string
	on := false
	for _, l := range lines {
		if strings.HasPrefix(l, "panic(") {
			on = true
			continue
		}
		if on && !strings.HasPrefix(l, "\t") && len(out) < 6 {
			out = append(out, strings.TrimSpace(l))
		}
	}
	return strings.Join(out, " <- ")
}

func writeReplay(p *prop, s *stats, c any, fails []Fail, tag string) string {
	return writeReplayH(p, s, c, fails, tag, nil)
}

func writeReplayH(p *prop, s *stats, c any, fails []Fail, tag string, hist *replayHistory) string {
	dir := os.Getenv("VERIF_REPLAY_DIR")
	if dir == "" {
		dir = "../replays"
	}
	_ = os.MkdirAll(dir, 0o755)
	path := fmt.Sprintf("%s/%s-%s.json", dir, p.id, tag)
	cb, _ := json.Marshal(c)
	rf := replayFile{Property: p.id, Case: cb, Fails: fails, History: hist}
	if hist != nil {
		rf.Note = "replay: the case is checked alone first; if it passes (history-dependent failure) the generated run that preceded it is repeated (rapid seed, number of evaluations)"
	}
	b, _ := json.MarshalIndent(rf, "", " ")
	_ = os.WriteFile(path, b, 0o644)
	s.mu.Lock()
	found := false
	for i := range s.Violations {
		if s.Violations[i].Replay == path {
			s.Violations[i].Fails = fails
			found = true
		}
	}
	if !found {
		s.Violations = append(s.Violations, violation{Replay: path, Fails: fails})
	}
	s.mu.Unlock()
	return path
}

func isFinite(f float64) bool { return !math.IsNaN(f) && !math.IsInf(f, 0) }
