package checks

import (
	"fmt"
	"math/big"
	"strconv"

	"github.com/trajectoryjp/spatial_id_go/v4/integrate"
	"pgregory.net/rapid"

	"verif/ref"
)

type CaseC03 struct {
	Boxes   []ref.Box
	H, V    int64
	Spatial bool  // single-zoom API: all boxes have H == V and the target is H == V
	Spell   int64 `json:",omitempty"` // != 0: input IDs use non-canonical integer spellings (+1, 007, -0)
}

const maxOut = 4096

// boundTargets lowers the target zooms until the reference output has at most maxOut boxes.
func boundTargets(bs []ref.Box, H, V int64, same bool) (int64, int64) {
	for {
		tot := new(big.Int)
		for _, b := range bs {
			tot.Add(tot, ref.ZoomCount(b, H, V))
		}
		if tot.Cmp(big.NewInt(maxOut)) <= 0 {
			return H, V
		}
		if same {
			H--
			V--
			continue
		}
		// lower the axis that currently contributes the larger factor
		var minH, minV int64 = 35, 35
		for _, b := range bs {
			minH, minV = min64(minH, b.H), min64(minV, b.V)
		}
		if V-minV >= 2*(H-minH) && V > 0 {
			V--
		} else if H > 0 {
			H--
		} else {
			V--
		}
	}
}

// genBoxList draws a relational list of boxes around a seed.
func genBoxList(t *rapid.T, maxLen int, maxUp, maxDown int64) []ref.Box {
	n := rapid.IntRange(0, maxLen).Draw(t, "len")
	if n == 0 {
		return nil
	}
	seed := genBox(t, "seed")
	out := []ref.Box{seed}
	for len(out) < n {
		base := out[rapid.IntRange(0, len(out)-1).Draw(t, "base")]
		out = append(out, genRelative(t, "r", base, maxUp, maxDown))
	}
	if len(out) > 1 {
		out = rapid.Permutation(out).Draw(t, "perm")
	}
	return out
}

func genC03(t *rapid.T) *CaseC03 {
	c := &CaseC03{}
	if rapid.IntRange(0, 3).Draw(t, "spatial") == 0 {
		c.Spatial = true
		z := genZoom(t, "z", 0, 35)
		n := rapid.IntRange(0, 6).Draw(t, "len")
		for i := 0; i < n; i++ {
			zz := clamp64(z+rapid.Int64Range(-3, 3).Draw(t, "dz"), 0, 35)
			if i == 0 {
				zz = z
			}
			if i == 0 || rapid.Bool().Draw(t, "fresh") {
				c.Boxes = append(c.Boxes, genBoxAt(t, "b", zz, zz))
			} else {
				// relative of an earlier box at another single zoom
				b := c.Boxes[rapid.IntRange(0, len(c.Boxes)-1).Draw(t, "base")]
				if zz >= b.H {
					d := zz - b.H
					c.Boxes = append(c.Boxes, ref.Box{H: zz, X: b.X<<uint(d) + rapid.Int64Range(0, (1<<uint(d))-1).Draw(t, "cx"), Y: b.Y<<uint(d) + rapid.Int64Range(0, (1<<uint(d))-1).Draw(t, "cy"), V: zz, F: b.F<<uint(d) + rapid.Int64Range(0, (1<<uint(d))-1).Draw(t, "cf")})
				} else {
					d := b.H - zz
					c.Boxes = append(c.Boxes, ref.Box{H: zz, X: ref.Ancestor(b.X, d), Y: ref.Ancestor(b.Y, d), V: zz, F: ref.Ancestor(b.F, d)})
				}
			}
		}
		c.H = genZoom(t, "target", 0, 35)
		c.V = c.H
		c.H, c.V = boundTargets(c.Boxes, c.H, c.V, true)
		c.Spell = genSpell(t)
		return c
	}
	c.Boxes = genBoxList(t, 8, 6, 4)
	if rapid.IntRange(0, 79).Draw(t, "long") == 0 && len(c.Boxes) > 0 {
		// long lists (size thresholds inside the implementation): many relatives of the first box
		n := rapid.SampledFrom([]int{33, 64, 65, 130, 257}).Draw(t, "nLong")
		for len(c.Boxes) < n {
			c.Boxes = append(c.Boxes, genRelative(t, "lr", c.Boxes[rapid.IntRange(0, min(len(c.Boxes)-1, 3)).Draw(t, "lbase")], 3, 2))
		}
	}
	c.H = genZoom(t, "H", 0, 35)
	c.V = genZoom(t, "V", 0, 35)
	if len(c.Boxes) > 0 && rapid.Bool().Draw(t, "near") {
		b := c.Boxes[0]
		c.H = clamp64(b.H+rapid.Int64Range(-4, 3).Draw(t, "dH"), 0, 35)
		c.V = clamp64(b.V+rapid.Int64Range(-6, 6).Draw(t, "dV"), 0, 35)
	}
	c.H, c.V = boundTargets(c.Boxes, c.H, c.V, false)
	c.Spell = genSpell(t)
	return c
}

func classifyC03(c *CaseC03) (bool, []string) {
	var cl []string
	nt := false
	zooms := map[[2]int64]struct{}{}
	for _, b := range c.Boxes {
		zooms[[2]int64{b.H, b.V}] = struct{}{}
		if c.V < b.V && b.F < 0 {
			nt = true
			cl = append(cl, "vertical-zoom-out-of-f<0")
		}
		if c.H < b.H && c.V > b.V || c.H > b.H && c.V < b.V {
			nt = true
			cl = append(cl, "axes-in-opposite-directions")
		}
		if c.H > b.H || c.V > b.V {
			cl = append(cl, "zoom-in")
		}
		if c.H < b.H || c.V < b.V {
			cl = append(cl, "zoom-out")
		}
	}
	if len(zooms) >= 2 {
		nt = true
		cl = append(cl, "mixed-zooms")
	}
	if len(c.Boxes) == 0 {
		cl = append(cl, "empty-list")
	}
	if len(c.Boxes) >= 33 {
		cl = append(cl, "long-list")
	}
	if c.Spatial {
		cl = append(cl, "spatial-api")
	}
	if c.Spell != 0 {
		cl = append(cl, "non-canonical-spelling")
	}
	return nt, uniq(cl)
}

func checkC03(c *CaseC03, fl *Fails) {
	want := ref.ZoomSet(c.Boxes, c.H, c.V)
	if c.Spatial {
		ids := spelledSpatial(c.Boxes, c.Spell)
		out, err := integrate.ChangeSpatialIdsZoom(ids, c.H)
		if err != nil {
			if c.Spell != 0 {
				// a library that rejects a non-canonical spelling ("+1", "007", "-0") with an error does not break the
				// property (it quantifies over valid IDs; only the canonical decimal spelling is certainly one)
				Count("spelled_input_rejected", 1)
				return
			}
			fl.Add("error", "ChangeSpatialIdsZoom(%v,%d): %v", trunc(ids, 6), c.H, err)
			return
		}
		if d, ok := hasDup(out); ok {
			fl.Add("duplicate", "ChangeSpatialIdsZoom(%v,%d) returns %s twice", trunc(ids, 6), c.H, d)
		}
		ws := map[string]struct{}{}
		for b := range want {
			ws[b.Spatial()] = struct{}{}
		}
		if miss, extra := diffSets(out, ws); len(miss)+len(extra) > 0 {
			fl.Add(c03Kind(c), "ChangeSpatialIdsZoom(%v,%d): missing %v, unexpected %v", trunc(ids, 6), c.H, miss, extra)
		}
		return
	}
	ids := spelledExt(c.Boxes, c.Spell)
	out, err := integrate.ChangeExtendedSpatialIdsZoom(ids, c.H, c.V)
	if err != nil {
		if c.Spell != 0 {
			// a library that rejects a non-canonical spelling ("+1", "007", "-0") with an error does not break the
			// property (it quantifies over valid IDs; only the canonical decimal spelling is certainly one)
			Count("spelled_input_rejected", 1)
			return
		}
		fl.Add("error", "ChangeExtendedSpatialIdsZoom(%v,%d,%d): %v", trunc(ids, 6), c.H, c.V, err)
		return
	}
	if d, ok := hasDup(out); ok {
		fl.Add("duplicate", "ChangeExtendedSpatialIdsZoom(%v,%d,%d) returns %s twice", trunc(ids, 6), c.H, c.V, d)
	}
	for _, o := range out {
		b, perr := ref.ParseExt(o)
		if perr != nil {
			fl.Add("format", "output %q: %v", o, perr)
			return
		}
		if b.H != c.H || b.V != c.V {
			fl.Add("zoom-field", "output %s is not at the requested zooms %d/%d", o, c.H, c.V)
		}
	}
	if miss, extra := diffSets(out, extSet(want)); len(miss)+len(extra) > 0 {
		fl.Add(c03Kind(c), "ChangeExtendedSpatialIdsZoom(%v,%d,%d): missing %v, unexpected %v (got %d ids, want %d)", trunc(ids, 6), c.H, c.V, miss, extra, len(out), len(want))
	}
	// exported per-axis helpers
	for _, b := range c.Boxes {
		xl, xh := ref.AxisRange(b.H, b.X, c.H)
		yl, yh := ref.AxisRange(b.H, b.Y, c.H)
		fl0, fh0 := ref.AxisRange(b.V, b.F, c.V)
		mnx, mny, mxx, mxy := integrate.HorizontalZoomMinMax(b.H, b.X, b.Y, c.H)
		if mnx != xl || mny != yl || mxx != xh || mxy != yh {
			fl.Add("hzoom-minmax", "HorizontalZoomMinMax(%d,%d,%d,%d) = (%d,%d,%d,%d), want (%d,%d,%d,%d)", b.H, b.X, b.Y, c.H, mnx, mny, mxx, mxy, xl, yl, xh, yh)
		}
		hs := integrate.HorizontalZoom(b.H, b.X, b.Y, c.H)
		wh := map[string]struct{}{}
		for x := xl; x <= xh; x++ {
			for y := yl; y <= yh; y++ {
				wh[fmt.Sprintf("%d/%d/%d", c.H, x, y)] = struct{}{}
			}
		}
		if _, dup := hasDup(hs); dup || len(hs) != len(wh) {
			fl.Add("hzoom", "HorizontalZoom(%d,%d,%d,%d) returns %d ids (dup=%v), want %d", b.H, b.X, b.Y, c.H, len(hs), dup, len(wh))
		} else if miss, extra := diffSets(hs, wh); len(miss)+len(extra) > 0 {
			fl.Add("hzoom", "HorizontalZoom(%d,%d,%d,%d): missing %v, unexpected %v", b.H, b.X, b.Y, c.H, miss, extra)
		}
		vs := integrate.VerticalZoom(b.V, b.F, c.V)
		wv := map[string]struct{}{}
		for f := fl0; f <= fh0; f++ {
			wv[strconv.FormatInt(c.V, 10)+"/"+strconv.FormatInt(f, 10)] = struct{}{}
		}
		if _, dup := hasDup(vs); dup || len(vs) != len(wv) {
			fl.Add("vzoom", "VerticalZoom(%d,%d,%d) returns %d ids (dup=%v), want %d", b.V, b.F, c.V, len(vs), dup, len(wv))
		} else if miss, extra := diffSets(vs, wv); len(miss)+len(extra) > 0 {
			kind := "vzoom"
			if c.V < b.V && b.F < 0 {
				kind = "vzoom-negative-out"
			}
			fl.Add(kind, "VerticalZoom(%d,%d,%d): missing %v, unexpected %v", b.V, b.F, c.V, miss, extra)
		}
	}
}

// c03Kind names the failure class of a set mismatch: zoom-out of a negative vertical index or other.
func c03Kind(c *CaseC03) string {
	for _, b := range c.Boxes {
		if c.V < b.V && b.F < 0 {
			return "set-negative-vertical-out"
		}
	}
	return "set"
}

func sweepC03(tier string, emit func(*CaseC03)) {
	// nested voxels that are only refined, with 2^16 .. 2^18 results (a result that large with overlapping inputs)
	for _, t := range [][2]int64{{15, 16}, {16, 16}} {
		par := ref.Box{H: 10, X: 3, Y: 1020, V: 10, F: -2}
		kid := ref.Box{H: 11, X: 7, Y: 2041, V: 11, F: -3}
		emit(&CaseC03{Boxes: []ref.Box{par, kid}, H: t[0], V: t[1]})
		emit(&CaseC03{Boxes: []ref.Box{kid, par, kid}, H: t[0], V: t[1]})
	}
	emit(&CaseC03{Boxes: []ref.Box{{H: 10, X: 0, Y: 0, V: 10, F: 0}, {H: 11, X: 0, Y: 0, V: 11, F: 0}}, H: 16, V: 16, Spatial: true})
	// very long lists that only zoom out (tens of thousands of entries, negative unaligned vertical indices)
	for _, n := range []int{32768, 40000, 65537} {
		if tier == "quick" && n == 40000 {
			continue
		}
		bs := rowBoxes(n, 12, 11)
		for i := range bs {
			bs[i].F = -int64(i%700) - 1
		}
		emit(&CaseC03{Boxes: bs, H: 10, V: 8})
		if n == 32768 {
			emit(&CaseC03{Boxes: bs, H: 12, V: 10})
		}
	}
	// round list lengths: n different boxes, converted at their own zooms (identity), one level out, and one level in
	for i, n := range roundSizes {
		if tier == "quick" && i%3 != 1 {
			continue
		}
		emit(&CaseC03{Boxes: rowBoxes(n, 7, 5), H: 7, V: 5})
		emit(allProcs(&CaseC03{Boxes: rowBoxes(n, 7, 5), H: 6, V: 4}))
		emit(&CaseC03{Boxes: rowBoxes(n, 7, 7), H: 7, V: 7, Spatial: true})
		if n <= 1025 {
			emit(allProcs(&CaseC03{Boxes: rowBoxes(n, 7, 5), H: 7, V: 6}))
		}
	}
	if tier != "quick" {
		// outputs beyond 2^20 IDs (implementations may switch strategy with size): partially overlapping inputs
		// (crossing zooms), nested inputs and a repeated entry
		emit(&CaseC03{Boxes: []ref.Box{{H: 0, X: 0, Y: 0, V: 3, F: 0}, {H: 3, X: 0, Y: 0, V: 0, F: 0}}, H: 10, V: 3})
		emit(&CaseC03{Boxes: []ref.Box{{H: 3, X: 7, Y: 7, V: 0, F: -1}, {H: 0, X: 0, Y: 0, V: 3, F: -8}, {H: 3, X: 7, Y: 7, V: 0, F: -1}}, H: 10, V: 3})
		emit(&CaseC03{Boxes: []ref.Box{{H: 1, X: 1, Y: 0, V: 1, F: -1}, {H: 2, X: 2, Y: 1, V: 2, F: -2}}, H: 10, V: 3, Spatial: false})
	}
	// every box at zooms <= 2 x every target pair <= 5 (output <= 4^5*2^5 too large: bound by maxOut)
	maxZ, maxT := int64(2), int64(5)
	if tier == "quick" {
		maxZ, maxT = 1, 4
	}
	for h := int64(0); h <= maxZ; h++ {
		for v := int64(0); v <= maxZ; v++ {
			for x := int64(0); x < 1<<uint(h); x++ {
				for y := int64(0); y < 1<<uint(h); y++ {
					for f := -(int64(1) << uint(v)); f < 1<<uint(v); f++ {
						b := ref.Box{H: h, X: x, Y: y, V: v, F: f}
						for H := int64(0); H <= maxT; H++ {
							for V := int64(0); V <= maxT; V++ {
								if ref.ZoomCount(b, H, V).Cmp(big.NewInt(maxOut)) > 0 {
									continue
								}
								emit(&CaseC03{Boxes: []ref.Box{b}, H: H, V: V})
							}
						}
					}
				}
			}
		}
	}
	// vertical helper: all zoom pairs x edge indices (through a one-box list so that the whole API is exercised)
	for v := int64(0); v <= 35; v++ {
		m := int64(1) << uint(v)
		for V := int64(0); V <= 35; V++ {
			if V > v+6 {
				continue
			}
			for _, f := range []int64{-m, -m + 1, -3, -2, -1, 0, 1, m - 1} {
				if f < -m || f >= m {
					continue
				}
				emit(&CaseC03{Boxes: []ref.Box{{H: 3, X: 5, Y: 2, V: v, F: f}}, H: 3, V: V})
			}
		}
	}
	// horizontal helper: all zoom pairs x edge indices
	for h := int64(0); h <= 35; h++ {
		n := int64(1) << uint(h)
		for H := int64(0); H <= 35; H++ {
			if H > h+3 {
				continue
			}
			for _, xy := range [][2]int64{{0, 0}, {n - 1, n - 1}, {n / 2, n/2 - 1}, {1, n - 2}} {
				b := ref.Box{H: h, X: clamp64(xy[0], 0, n-1), Y: clamp64(xy[1], 0, n-1), V: 4, F: -3}
				emit(&CaseC03{Boxes: []ref.Box{b}, H: H, V: 4})
			}
		}
	}
}

func init() {
	register(PropT[CaseC03]{
		ID:   "C03",
		Rule: "rapid: relational list (0..8) of valid boxes (seed + siblings, children, ancestors, neighbours, ground-level pairs; mixed zooms; >= half f<0) x target (H,V) in 0..35^2, zoom-in bounded so that the reference output has <= 4096 boxes; extended API + per-axis helpers, or single-zoom API. Sweep: every box at zooms <=2 x every target <=5; VerticalZoom for all zoom pairs x edge indices; HorizontalZoom for all zoom pairs x edge tiles. Non-trivial: a vertical zoom-out of f<0, or the axes move in opposite directions, or boxes at >=2 different zoom pairs.",
		Assumptions: []string{
			"oracle = dyadic-box reference (floor ancestors, child ranges) in integer arithmetic; compared as exact sets",
			"zoom-in differences bounded (output <= 4096 ids) because the function documents unbounded memory use",
		},
		Gen: genC03, Check: checkC03, Classify: classifyC03, Sweep: sweepC03,
		SweepScopes: func(tier string) []string {
			if tier == "quick" {
				return []string{"every box at zooms (h,v)<=1 x every target (H,V)<=4 (exhaustive)", "VerticalZoom: all (v,V) pairs with V<=v+6 x 8 edge indices", "HorizontalZoom: all (h,H) pairs with H<=h+3 x 4 edge tiles"}
			}
			return []string{"every box at zooms (h,v)<=2 x every target (H,V)<=5 with <=4096 outputs (exhaustive)", "VerticalZoom: all (v,V) pairs with V<=v+6 x 8 edge indices", "HorizontalZoom: all (h,H) pairs with H<=h+3 x 4 edge tiles"}
		},
	})
}
