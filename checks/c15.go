package checks

import (
	"math"
	"strconv"
	"strings"

	"github.com/trajectoryjp/spatial_id_go/v4/common/enum"
	"github.com/trajectoryjp/spatial_id_go/v4/common/object"
	"github.com/trajectoryjp/spatial_id_go/v4/detector"
	"github.com/trajectoryjp/spatial_id_go/v4/integrate"
	"github.com/trajectoryjp/spatial_id_go/v4/operated"
	"github.com/trajectoryjp/spatial_id_go/v4/shape"
	"github.com/trajectoryjp/spatial_id_go/v4/transform"
	"pgregory.net/rapid"

	"verif/ref"
)

// CaseC15 is one call of one exported function with one kind of invalid argument.
type CaseC15 struct {
	Fn        string   // target function (see c15Targets)
	Kind      string   // malformed-id | bad-zoom | bad-point | nil-point | bad-option | negative | heights | object-zoom
	IDs       []string // first ID list (notation depends on Fn)
	IDs2      []string // second ID list (overlap checks)
	Bad       int      // index of the malformed entry in IDs (or len(IDs)+index in IDs2), -1 if none
	Z         []int64  // numeric arguments: zooms / layers, tried in this order (mild first)
	F         []F64    // float arguments (coordinates, radius, heights)
	Edit      string   // how the malformed ID was derived (class label)
	Prior     []string `json:",omitempty"` // well-formed list(s) the malformed case was derived from: called first (history)
	Prior2    []string `json:",omitempty"`
	replaying bool
}

// wellFormed: exactly n '/'-separated fields, each accepted by strconv.ParseInt (the library's own notion of an integer field).
func wellFormed(s string, n int) bool {
	p := strings.Split(s, "/")
	if len(p) != n {
		return false
	}
	for _, f := range p {
		if _, err := strconv.ParseInt(f, 10, 64); err != nil {
			return false
		}
	}
	return true
}

type c15Target struct {
	name    string
	arity   int  // 5 extended, 4 spatial, 0 no ID argument
	lists   int  // number of ID lists (0, 1 single ID, 2 pair / two lists)
	single  bool // takes single IDs rather than lists
	parses  bool // interprets every field as an integer (else only the arity is checked)
	nzoom   int  // number of zoom-like arguments
	quadkey bool // first zoom argument is a quadkey zoom (1..31)
}

var c15IDTargets = []c15Target{
	{name: "shape.GetPointOnExtendedSpatialId", arity: 5, lists: 1, single: true, parses: true},
	{name: "shape.GetPointOnSpatialId", arity: 4, lists: 1, single: true, parses: true},
	{name: "shape.ConvertSpatialIdsToExtendedSpatialIds", arity: 4, lists: 1, parses: false},
	{name: "shape.ConvertExtendedSpatialIdsToSpatialIds", arity: 5, lists: 1, parses: false},
	{name: "integrate.ChangeExtendedSpatialIdsZoom", arity: 5, lists: 1, parses: true, nzoom: 2},
	{name: "integrate.ChangeSpatialIdsZoom", arity: 4, lists: 1, parses: true, nzoom: 1},
	{name: "integrate.MergeExtendedSpatialIds", arity: 5, lists: 1, parses: true, nzoom: 2},
	{name: "integrate.MergeSpatialIds", arity: 4, lists: 1, parses: true, nzoom: 1},
	{name: "operated.GetShiftingSpatialID", arity: 5, lists: 1, single: true, parses: true},
	{name: "operated.Get6spatialIdsAdjacentToFaces", arity: 5, lists: 1, single: true, parses: true},
	{name: "operated.Get8spatialIdsAroundHorizontal", arity: 5, lists: 1, single: true, parses: true},
	{name: "operated.Get26spatialIdsAroundVoxel", arity: 5, lists: 1, single: true, parses: true},
	{name: "operated.GetNspatialIdsAroundVoxcels", arity: 5, lists: 1, parses: true},
	{name: "detector.CheckExtendedSpatialIdsOverlap", arity: 5, lists: 2, single: true, parses: true},
	{name: "detector.CheckSpatialIdsOverlap", arity: 4, lists: 2, single: true, parses: true},
	{name: "detector.CheckExtendedSpatialIdsArrayOverlap", arity: 5, lists: 2, parses: true},
	{name: "detector.CheckSpatialIdsArrayOverlap", arity: 4, lists: 2, parses: true},
	{name: "transform.ConvertExtendedSpatialIDsToQuadkeysAndVerticalIDs", arity: 5, lists: 1, parses: true, nzoom: 2, quadkey: true},
	{name: "transform.ConvertSpatialIDsToQuadkeysAndVerticalIDs", arity: 4, lists: 1, parses: true, nzoom: 2, quadkey: true},
	{name: "transform.ConvertExtendedSpatialIDsToQuadkeysAndAltitudekeys", arity: 5, lists: 1, parses: true, nzoom: 2, quadkey: true},
	{name: "transform.FitClearanceAroundExtendedSpatialID", arity: 5, lists: 1, single: true, parses: true},
	{name: "object.NewExtendedSpatialID", arity: 5, lists: 1, single: true, parses: true},
	{name: "object.ResetExtendedSpatialID", arity: 5, lists: 1, single: true, parses: true},
}

// targets whose invalid argument is a zoom (beyond the ID targets with nzoom > 0)
var c15ZoomTargets = []string{
	"shape.GetSpatialIdsOnPoints", "shape.GetExtendedSpatialIdsOnPoints", "shape.GetSpatialIdsOnLine", "shape.GetExtendedSpatialIdsOnLine",
	"transform.GetExtendedSpatialIdsWithinRadiusOfLine", "transform.ConvertQuadkeysAndVerticalIDsToExtendedSpatialIDs", "transform.ConvertQuadkeysAndVerticalIDsToSpatialIDs",
	"transform.ConvertQuadkeysAndVerticalIDs(input-zoom)", "transform.ConvertTileXYZsToExtendedSpatialIDs", "transform.ConvertTileXYZsToSpatialIDs",
	"object.NewTileXYZ", "object.TileXYZ.SetHZoom", "object.TileXYZ.SetVZoom",
}

func c15Find(name string) *c15Target {
	for i := range c15IDTargets {
		if c15IDTargets[i].name == name {
			return &c15IDTargets[i]
		}
	}
	return nil
}

var hostileFields = []string{"", " ", "a", "-", "--1", "1e3", "0x10", "1.5", "１２", "9223372036854775808", "-9223372036854775809", "1 ", " 1", "\x00", "1\x00", "NaN", "99999999999999999999999999999999999999", "0b1", "1_0", "٣", "+", "1/"}

// malform derives a malformed ID (by the library's own notion) from a well-formed one; returns the edit label.
func malform(t *rapid.T, id string, n int) (string, string) {
	p := strings.Split(id, "/")
	for tries := 0; tries < 8; tries++ {
		q := append([]string(nil), p...)
		var label string
		switch rapid.IntRange(0, 9).Draw(t, "edit") {
		case 0:
			if rapid.Bool().Draw(t, "join") {
				// two IDs delivered as one string (a separator that is not the list boundary)
				sep := rapid.SampledFrom([]string{",", ";", " ", "\n", "|", "\t", ", "}).Draw(t, "sep")
				return id + sep + id, "joined-entries"
			}
			i := rapid.IntRange(0, len(q)-1).Draw(t, "delAt")
			q = append(q[:i:i], q[i+1:]...)
			label = "field-deleted"
		case 1:
			i := rapid.IntRange(0, len(q)).Draw(t, "addAt")
			q = append(q[:i:i], append([]string{strconv.Itoa(rapid.IntRange(0, 9).Draw(t, "addVal"))}, q[i:]...)...)
			label = "field-added"
		case 2:
			q[rapid.IntRange(0, len(q)-1).Draw(t, "emptyAt")] = ""
			label = "empty-field"
		case 3, 4, 5:
			q[rapid.IntRange(0, len(q)-1).Draw(t, "hostAt")] = rapid.SampledFrom(hostileFields).Draw(t, "host")
			label = "hostile-field"
		case 6:
			i := rapid.IntRange(0, len(q)-1).Draw(t, "spAt")
			if rapid.Bool().Draw(t, "lead") {
				q[i] = " " + q[i]
			} else {
				q[i] = q[i] + " "
			}
			label = "space"
		case 7:
			s := strings.Join(q, "/")
			if rapid.Bool().Draw(t, "trail") {
				return s + "/", "trailing-slash"
			}
			return "/" + s, "leading-slash"
		case 8:
			return rapid.SampledFrom([]string{"", "/", "////", "///", "abc", " ", "1", "1/2", "1/2/3", "1/2/3/4/5/6", strings.Repeat("1/", 40), "\x00/\x00/\x00/\x00/\x00", "a/b/c/d", "a/b/c/d/e"}).Draw(t, "whole"), "whole-string"
		default:
			i := rapid.IntRange(0, len(q)-1).Draw(t, "letAt")
			q[i] = q[i] + rapid.SampledFrom([]string{"a", ".", ",", "e", "x", "L", "%"}).Draw(t, "suffix")
			label = "suffix"
		}
		s := strings.Join(q, "/")
		if !wellFormed(s, n) {
			return s, label
		}
	}
	return id + "/x", "field-added"
}

// c15Box draws a cheap valid box (zooms <= 12 so that a wrongly accepted ID does bounded work).
func c15Box(t *rapid.T, label string, spatial bool) ref.Box {
	h := rapid.Int64Range(1, 12).Draw(t, label+"_h")
	v := rapid.Int64Range(1, 12).Draw(t, label+"_v")
	if spatial {
		v = h
	}
	b := genBoxAt(t, label, h, v)
	if spatial {
		half := int64(1) << uint(h-1)
		b.F = clamp64(b.F, -half, half-1)
	}
	return b
}

func idOf(b ref.Box, arity int) string {
	if arity == 4 {
		return b.Spatial()
	}
	return b.Ext()
}

var badZoomsMild = []int64{-1, 36}
var badZoomsFar = []int64{-2, 37, 38, -100, math.MinInt32, math.MinInt64, 64, 100, math.MaxInt32, math.MaxInt64}
var badQuadZoomsMild = []int64{0, 32, -1, 36}

func genBadZoomSeq(t *rapid.T, quadkey bool) []int64 {
	mild := badZoomsMild
	if quadkey {
		mild = badQuadZoomsMild
	}
	seq := []int64{rapid.SampledFrom(mild).Draw(t, "mildZoom")}
	switch rapid.IntRange(0, 3).Draw(t, "far") {
	case 0:
		seq = append(seq, rapid.SampledFrom(badZoomsFar).Draw(t, "farZoom"))
	case 1:
		v := rapid.Int64().Draw(t, "anyZoom")
		lo, hi := int64(0), int64(35)
		if quadkey {
			lo, hi = 1, 31
		}
		if v < lo || v > hi {
			seq = append(seq, v)
		}
	}
	return seq
}

func genC15(t *rapid.T) *CaseC15 {
	c := &CaseC15{Bad: -1}
	switch rapid.IntRange(0, 9).Draw(t, "kind") {
	case 0, 1, 2, 3, 4: // malformed ID strings
		tg := rapid.SampledFrom(c15IDTargets).Draw(t, "target")
		c.Fn, c.Kind = tg.name, "malformed-id"
		spatial := tg.arity == 4
		seed := c15Box(t, "seed", spatial)
		n1 := 1
		if !tg.single {
			n1 = rapid.IntRange(1, 4).Draw(t, "n1")
		}
		for i := 0; i < n1; i++ {
			b := seed
			if i > 0 {
				b = c15Box(t, "b", spatial)
				b.H, b.V = seed.H, seed.V
				b.X, b.Y = b.X%(1<<uint(b.H)), b.Y%(1<<uint(b.H))
				if !b.Valid() || (spatial && !spatialValid(b)) {
					b = seed
				}
			}
			c.IDs = append(c.IDs, idOf(b, tg.arity))
		}
		if tg.lists == 2 {
			n2 := 1
			if !tg.single {
				n2 = rapid.IntRange(1, 3).Draw(t, "n2")
			}
			for i := 0; i < n2; i++ {
				if rapid.Bool().Draw(t, "overlapping") {
					c.IDs2 = append(c.IDs2, c.IDs[0])
				} else {
					c.IDs2 = append(c.IDs2, idOf(ref.Shift(seed, 1, 0, 0), tg.arity))
				}
			}
		}
		total := len(c.IDs) + len(c.IDs2)
		c.Prior, c.Prior2 = append([]string(nil), c.IDs...), append([]string(nil), c.IDs2...)
		c.Bad = rapid.IntRange(0, total-1).Draw(t, "badAt")
		var base string
		if c.Bad < len(c.IDs) {
			base = c.IDs[c.Bad]
		} else {
			base = c.IDs2[c.Bad-len(c.IDs)]
		}
		m, label := malform(t, base, tg.arity)
		if !tg.parses {
			// only the arity is checked: make sure the arity is wrong
			for strings.Count(m, "/") == tg.arity-1 {
				m += "/0"
				label = "field-added"
			}
		}
		c.Edit = label
		if label == "joined-entries" && !tg.single && c.Bad+1 < len(c.IDs) {
			// the joined string stands for two consecutive entries of the original list
			sep := m[len(base) : len(m)-len(base)]
			m = c.IDs[c.Bad] + sep + c.IDs[c.Bad+1]
			c.IDs = append(append(append([]string{}, c.IDs[:c.Bad]...), m), c.IDs[c.Bad+2:]...)
		} else if c.Bad < len(c.IDs) {
			c.IDs[c.Bad] = m
		} else {
			c.IDs2[c.Bad-len(c.IDs)] = m
		}
		if tg.lists == 2 && label != "joined-entries" && rapid.IntRange(0, 3).Draw(t, "both") == 0 {
			// the same malformed string in both arguments (an equality shortcut must not skip the validation)
			if c.Bad < len(c.IDs) {
				c.IDs2[rapid.IntRange(0, len(c.IDs2)-1).Draw(t, "bothAt")] = m
			} else {
				c.IDs[rapid.IntRange(0, len(c.IDs)-1).Draw(t, "bothAt")] = m
			}
			c.Edit += "+same-in-both-arguments"
		}
		// valid zoom arguments near the valid IDs' own zooms
		if tg.quadkey {
			c.Z = []int64{clamp64(seed.H+rapid.Int64Range(-1, 1).Draw(t, "zq"), 1, 31), clamp64(seed.V+rapid.Int64Range(-1, 1).Draw(t, "zv"), 0, 35)}
		} else {
			c.Z = []int64{clamp64(seed.H+rapid.Int64Range(-1, 1).Draw(t, "z0"), 0, 35), clamp64(seed.V+rapid.Int64Range(-1, 1).Draw(t, "z1"), 0, 35)}
		}
	case 5, 6: // invalid zoom arguments with otherwise valid input
		names := append([]string{}, c15ZoomTargets...)
		for _, tg := range c15IDTargets {
			if tg.nzoom > 0 {
				names = append(names, tg.name)
			}
		}
		c.Fn, c.Kind = rapid.SampledFrom(names).Draw(t, "ztarget"), "bad-zoom"
		tg := c15Find(c.Fn)
		quad := (tg != nil && tg.quadkey) || strings.Contains(c.Fn, "input-zoom")
		which := rapid.IntRange(0, 1).Draw(t, "whichZoom") // which zoom argument is invalid
		if c.Fn == "shape.GetSpatialIdsOnPoints" || c.Fn == "shape.GetSpatialIdsOnLine" || c.Fn == "integrate.ChangeSpatialIdsZoom" || c.Fn == "integrate.MergeSpatialIds" ||
			c.Fn == "transform.ConvertQuadkeysAndVerticalIDsToSpatialIDs" || c.Fn == "object.TileXYZ.SetHZoom" || c.Fn == "object.TileXYZ.SetVZoom" ||
			c.Fn == "transform.ConvertTileXYZsToExtendedSpatialIDs" || c.Fn == "transform.ConvertTileXYZsToSpatialIDs" {
			which = 0
		}
		seq := genBadZoomSeq(t, quad && which == 0)
		// Z = [which, valid other zoom, bad values...]
		other := rapid.Int64Range(1, 12).Draw(t, "otherZoom")
		c.Z = append([]int64{int64(which), other}, seq...)
		spatial := tg != nil && tg.arity == 4
		if tg != nil {
			// IDs near the boundary the bad zoom is beyond, so that a wrongly accepted zoom does bounded work
			z := int64(34)
			if seq[0] <= 0 {
				z = 1
			}
			if tg.quadkey {
				z = clamp64(z, 1, 31)
			}
			b := genBoxAt(t, "zb", z, z)
			if spatial {
				half := int64(1) << uint(z-1)
				b.F = clamp64(b.F, -half, half-1)
			}
			c.IDs = []string{idOf(b, tg.arity)}
			c.Z[1] = z
		}
		c.F = []F64{F64(genLon(t, "lon", 10)), F64(genLat(t, "lat", 10)), F64(rapid.Float64Range(-100, 100).Draw(t, "alt"))}
	case 7: // coordinates
		c.Kind = "bad-point"
		c.Fn = rapid.SampledFrom([]string{"object.NewPoint", "object.Point.SetLon", "object.Point.SetLat"}).Draw(t, "ptarget")
		lon := genLon(t, "lon", 10)
		lat := genLat(t, "lat", 10)
		alt := rapid.OneOf(rapid.Float64(), rapid.SampledFrom([]float64{0, math.Inf(1), math.Inf(-1), math.MaxFloat64, -math.MaxFloat64, 5e-324})).Draw(t, "alt")
		switch rapid.IntRange(0, 3).Draw(t, "badCoord") {
		case 0:
			lon = rapid.SampledFrom([]float64{math.Nextafter(180, 181), math.Nextafter(-180, -181), 180.0000001, -180.0000001, 181, -181, 360, 1e300, math.MaxFloat64, -math.MaxFloat64, math.Inf(1), math.Inf(-1)}).Draw(t, "badLon")
		case 1:
			lat = rapid.SampledFrom([]float64{latLimit + 2e-10, -latLimit - 2e-10, 85.06, -85.06, 90, -90, 91, 1e300, math.MaxFloat64, -math.MaxFloat64, math.Inf(1), math.Inf(-1)}).Draw(t, "badLat")
		case 2:
			lon = rapid.OneOf(rapid.Float64Min(180.000001), rapid.Float64Max(-180.000001)).Draw(t, "farLon")
		default: // a valid point: the storage clause
		}
		c.F = []F64{F64(lon), F64(lat), F64(alt)}
	case 8: // nil points, unknown options
		c.Kind = rapid.SampledFrom([]string{"nil-point", "bad-option"}).Draw(t, "k8")
		if c.Kind == "nil-point" {
			c.Fn = rapid.SampledFrom([]string{"shape.GetExtendedSpatialIdsOnPoints", "shape.GetSpatialIdsOnPoints", "shape.GetExtendedSpatialIdsOnLine", "shape.GetSpatialIdsOnLine", "transform.GetExtendedSpatialIdsWithinRadiusOfLine"}).Draw(t, "ntarget")
			c.Z = []int64{rapid.Int64Range(4, 20).Draw(t, "h"), rapid.Int64Range(0, 25).Draw(t, "v"), int64(rapid.IntRange(0, 3).Draw(t, "nilAt")), int64(rapid.IntRange(1, 4).Draw(t, "npts"))}
			c.F = []F64{F64(genLon(t, "lon", 10)), F64(genLat(t, "lat", 10)), F64(rapid.Float64Range(-100, 100).Draw(t, "alt"))}
		} else {
			c.Fn = rapid.SampledFrom([]string{"shape.GetPointOnExtendedSpatialId", "shape.GetPointOnSpatialId"}).Draw(t, "otarget")
			b := c15Box(t, "ob", c.Fn == "shape.GetPointOnSpatialId")
			c.IDs = []string{idOf(b, map[bool]int{true: 4, false: 5}[c.Fn == "shape.GetPointOnSpatialId"])}
			c.Z = []int64{rapid.OneOf(rapid.SampledFrom([]int64{2, -1, 3, 100, math.MinInt32, math.MaxInt32}), rapid.Int64Range(-1000, 1000)).Draw(t, "opt")}
			if c.Z[0] == 0 || c.Z[0] == 1 {
				c.Z[0] = 2
			}
		}
	default: // negative radius / layers, max < min heights
		c.Kind = rapid.SampledFrom([]string{"negative", "heights"}).Draw(t, "k9")
		b := c15Box(t, "nb", false)
		c.IDs = []string{b.Ext()}
		if c.Kind == "negative" {
			c.Fn = rapid.SampledFrom([]string{"operated.GetNspatialIdsAroundVoxcels", "transform.FitClearanceAroundExtendedSpatialID", "transform.GetExtendedSpatialIdsWithinRadiusOfLine"}).Draw(t, "negtarget")
			c.Z = []int64{rapid.OneOf(rapid.SampledFrom([]int64{-1, -2, math.MinInt64}), rapid.Int64Range(-1000, -1)).Draw(t, "negLayer"), rapid.Int64Range(0, 2).Draw(t, "otherLayer"), int64(rapid.IntRange(0, 1).Draw(t, "whichLayer"))}
			c.F = []F64{F64(rapid.OneOf(rapid.SampledFrom([]float64{-1, -1e-300, -5e-324, math.Inf(-1), -math.MaxFloat64}), rapid.Float64Max(-1e-9)).Draw(t, "negRadius")),
				F64(genLon(t, "lon", 10)), F64(genLat(t, "lat", 10))}
		} else {
			c.Fn = rapid.SampledFrom([]string{"transform.ConvertExtendedSpatialIDsToQuadkeysAndVerticalIDs", "transform.ConvertSpatialIDsToQuadkeysAndVerticalIDs", "transform.ConvertQuadkeysAndVerticalIDsToExtendedSpatialIDs", "transform.ConvertQuadkeysAndVerticalIDsToSpatialIDs"}).Draw(t, "htarget")
			if c.Fn == "transform.ConvertSpatialIDsToQuadkeysAndVerticalIDs" {
				c.IDs = []string{c15Box(t, "sb", true).Spatial()}
			}
			lo := rapid.Float64Range(-1000, 1000).Draw(t, "minH")
			d := rapid.OneOf(rapid.SampledFrom([]float64{1, 1e-9, 5e-324, 1e300}), rapid.Float64Range(1e-6, 1e4)).Draw(t, "dH")
			hi := lo - d
			if hi == lo {
				hi = math.Nextafter(lo, math.Inf(-1))
			}
			c.F = []F64{F64(hi), F64(lo)} // maxHeight < minHeight
			// output zooms next to the ID's own zooms: the library converts the horizontal part before it looks at the heights
			hb, _ := ref.ParseExt(b.Ext())
			if c.Fn == "transform.ConvertSpatialIDsToQuadkeysAndVerticalIDs" {
				hb, _ = ref.ParseSpatial(c.IDs[0])
			}
			c.Z = []int64{clamp64(hb.H+rapid.Int64Range(-1, 1).Draw(t, "qz"), 1, 31), clamp64(hb.V+rapid.Int64Range(-1, 1).Draw(t, "vz"), 0, 35)}
		}
	}
	return c
}

func classifyC15(c *CaseC15) (bool, []string) {
	cl := []string{"kind=" + c.Kind, "fn=" + c.Fn[:strings.Index(c.Fn, ".")]}
	nt := false
	switch c.Kind {
	case "malformed-id":
		cl = append(cl, "edit="+c.Edit)
		if c.Edit != "whole-string" {
			nt = true // one edit away from a valid ID
		}
		if c.Bad > 0 {
			nt = true
			cl = append(cl, "behind-valid-prefix")
		}
	case "bad-zoom":
		if len(c.Z) > 2 && (c.Z[2] == -1 || c.Z[2] == 36 || c.Z[2] == 0 || c.Z[2] == 32) {
			nt = true
			cl = append(cl, "within-1-of-bound")
		}
		if len(c.Z) > 3 {
			cl = append(cl, "far-zoom-too")
		}
	case "bad-point":
		lon, lat := c.F[0].V(), c.F[1].V()
		if math.Abs(math.Abs(lon)-180) < 1e-6 || math.Abs(math.Abs(lat)-latLimit) < 1e-6 {
			nt = true
			cl = append(cl, "near-bound")
		}
		if math.Abs(lon) <= 180 && math.Abs(lat) <= latLimit {
			cl = append(cl, "valid-point-storage")
			nt = true
		}
	default:
		nt = true
	}
	return nt, cl
}

func isEmptyIDs(ss []string) bool {
	for _, s := range ss {
		if s != "" {
			return false
		}
	}
	return true
}

func validSublist(ids []string, arity int) []ref.Box {
	var out []ref.Box
	for _, s := range ids {
		if !wellFormed(s, arity) {
			continue
		}
		var b ref.Box
		var err error
		if arity == 4 {
			b, err = ref.ParseSpatial(s)
		} else {
			b, err = ref.ParseExt(s)
		}
		if err == nil {
			out = append(out, b)
		}
	}
	return out
}

func checkC15(c *CaseC15, fl *Fails) {
	switch c.Kind {
	case "malformed-id":
		checkC15Malformed(c, fl)
	case "bad-zoom":
		checkC15Zoom(c, fl)
	case "bad-point":
		checkC15Point(c, fl)
	case "nil-point":
		checkC15Nil(c, fl)
	case "bad-option":
		var pts []*object.Point
		var err error
		if c.Fn == "shape.GetPointOnSpatialId" {
			pts, err = shape.GetPointOnSpatialId(c.IDs[0], enum.PointOption(c.Z[0]))
		} else {
			pts, err = shape.GetPointOnExtendedSpatialId(c.IDs[0], enum.PointOption(c.Z[0]))
		}
		if err == nil {
			fl.Add("option-accepted", "%s(%s, option %d): no error", c.Fn, c.IDs[0], c.Z[0])
		} else if len(pts) != 0 {
			fl.Add("result-with-error", "%s(%s, option %d): %d points with error %v", c.Fn, c.IDs[0], c.Z[0], len(pts), err)
		}
	case "negative":
		checkC15Negative(c, fl)
	case "heights":
		mx, mn := c.F[0].V(), c.F[1].V()
		var err error
		var n int
		switch c.Fn {
		case "transform.ConvertExtendedSpatialIDsToQuadkeysAndVerticalIDs":
			r, e := transform.ConvertExtendedSpatialIDsToQuadkeysAndVerticalIDs(c.IDs, c.Z[0], c.Z[1], mx, mn)
			err, n = e, len(r)
		case "transform.ConvertSpatialIDsToQuadkeysAndVerticalIDs":
			r, e := transform.ConvertSpatialIDsToQuadkeysAndVerticalIDs(c.IDs, c.Z[0], c.Z[1], mx, mn)
			err, n = e, len(r)
		case "transform.ConvertQuadkeysAndVerticalIDsToExtendedSpatialIDs":
			q := object.NewQuadkeyAndVerticalID(c.Z[0], 1, c.Z[1], 0, mx, mn)
			r, e := transform.ConvertQuadkeysAndVerticalIDsToExtendedSpatialIDs([]*object.QuadkeyAndVerticalID{q}, c.Z[0], c.Z[1])
			err, n = e, len(r)
		default:
			q := object.NewQuadkeyAndVerticalID(c.Z[0], 1, c.Z[1], 0, mx, mn)
			r, e := transform.ConvertQuadkeysAndVerticalIDsToSpatialIDs([]*object.QuadkeyAndVerticalID{q}, c.Z[0])
			err, n = e, len(r)
		}
		if err == nil {
			fl.Add("heights-accepted", "%s with maxHeight %v < minHeight %v: no error (%d results)", c.Fn, mx, mn, n)
		} else if n != 0 {
			fl.Add("result-with-error", "%s with maxHeight < minHeight: %d results with error", c.Fn, n)
		}
	}
}

func checkC15Malformed(c *CaseC15, fl *Fails) {
	tg := c15Find(c.Fn)
	if tg == nil {
		return
	}
	var bad string
	if c.Bad < len(c.IDs) {
		bad = c.IDs[c.Bad]
	} else {
		bad = c.IDs2[c.Bad-len(c.IDs)]
	}
	if wellFormed(bad, tg.arity) {
		return // hand-written replay with a well-formed entry: nothing to demand
	}
	arityOK := strings.Count(bad, "/") == tg.arity-1
	if !tg.parses && arityOK {
		return
	}
	desc := c.Fn + "(" + jsonStr(c.IDs)
	if tg.lists == 2 {
		desc += ", " + jsonStr(c.IDs2)
	}
	desc += ")"
	need := func(err error, what string) {
		if err == nil {
			kind := "malformed-accepted"
			if !arityOK {
				kind = "wrong-arity-accepted"
			}
			fl.Add(kind, "%s: malformed entry %q (%s) but no error%s", desc, bad, c.Edit, what)
		}
	}
	z0, z1 := c.Z[0], c.Z[1]
	if c.Prior != nil && !c.replaying {
		// history: the same function is first called with a well-formed list the malformed one was derived from
		// (a result cached from that call must not make the malformed input acceptable)
		pc := *c
		pc.IDs, pc.IDs2, pc.Prior, pc.replaying = c.Prior, c.Prior2, nil, true
		pc.Bad = -1
		var ignore Fails
		c15CallOnly(&pc, &ignore)
	}
	switch c.Fn {
	case "shape.GetPointOnExtendedSpatialId":
		p, err := shape.GetPointOnExtendedSpatialId(c.IDs[0], enum.Vertex)
		need(err, "")
		if err != nil && len(p) != 0 {
			fl.Add("result-with-error", "%s: %d points with error", desc, len(p))
		}
		_, err = shape.GetPointOnExtendedSpatialId(c.IDs[0], enum.Center)
		need(err, " (centre)")
	case "shape.GetPointOnSpatialId":
		p, err := shape.GetPointOnSpatialId(c.IDs[0], enum.Vertex)
		need(err, "")
		if err != nil && len(p) != 0 {
			fl.Add("result-with-error", "%s: %d points with error", desc, len(p))
		}
	case "shape.ConvertSpatialIdsToExtendedSpatialIds":
		_, err := shape.ConvertSpatialIdsToExtendedSpatialIds(c.IDs)
		need(err, "")
	case "shape.ConvertExtendedSpatialIdsToSpatialIds":
		_, err := shape.ConvertExtendedSpatialIdsToSpatialIds(c.IDs)
		need(err, "")
	case "integrate.ChangeExtendedSpatialIdsZoom":
		_, err := integrate.ChangeExtendedSpatialIdsZoom(c.IDs, z0, z1)
		need(err, "")
	case "integrate.ChangeSpatialIdsZoom":
		_, err := integrate.ChangeSpatialIdsZoom(c.IDs, z0)
		need(err, "")
	case "integrate.MergeExtendedSpatialIds":
		_, err := integrate.MergeExtendedSpatialIds(c.IDs, z0, z1)
		need(err, "")
	case "integrate.MergeSpatialIds":
		_, err := integrate.MergeSpatialIds(c.IDs, z0)
		need(err, "")
	case "operated.GetShiftingSpatialID":
		if s := operated.GetShiftingSpatialID(c.IDs[0], 1, -1, 1); s != "" {
			fl.Add("shift-nonempty", "%s: shift of malformed %q returned %q, expected the empty ID", desc, bad, s)
		}
	case "operated.Get6spatialIdsAdjacentToFaces", "operated.Get8spatialIdsAroundHorizontal", "operated.Get26spatialIdsAroundVoxel":
		var r []string
		switch c.Fn {
		case "operated.Get6spatialIdsAdjacentToFaces":
			r = operated.Get6spatialIdsAdjacentToFaces(c.IDs[0])
		case "operated.Get8spatialIdsAroundHorizontal":
			r = operated.Get8spatialIdsAroundHorizontal(c.IDs[0])
		default:
			r = operated.Get26spatialIdsAroundVoxel(c.IDs[0])
		}
		if !isEmptyIDs(r) {
			fl.Add("shift-nonempty", "%s: neighbours of malformed %q: %v, expected only empty IDs", desc, bad, trunc(r, 4))
		}
	case "operated.GetNspatialIdsAroundVoxcels":
		r, err := operated.GetNspatialIdsAroundVoxcels(c.IDs, 1, 1)
		if err == nil {
			// weaker reading (ii): the malformed entry may contribute only ""; everything else must be a shift of a valid entry
			want := map[string]struct{}{"": {}}
			for _, b := range validSublist(c.IDs, 5) {
				for _, s := range applyStencil(b, stencil26()) {
					want[s] = struct{}{}
				}
			}
			for _, s := range r {
				if _, ok := want[s]; !ok {
					fl.Add("fabricated-id", "%s: result contains %q which is not a neighbour of any well-formed entry", desc, s)
					break
				}
			}
		}
	case "detector.CheckExtendedSpatialIdsOverlap":
		r, err := detector.CheckExtendedSpatialIdsOverlap(c.IDs[0], c.IDs2[0])
		need(err, "")
		if r {
			fl.Add("true-with-malformed", "%s: true", desc)
		}
	case "detector.CheckSpatialIdsOverlap":
		r, err := detector.CheckSpatialIdsOverlap(c.IDs[0], c.IDs2[0])
		need(err, "")
		if r {
			fl.Add("true-with-malformed", "%s: true", desc)
		}
	case "detector.CheckExtendedSpatialIdsArrayOverlap", "detector.CheckSpatialIdsArrayOverlap":
		var r bool
		var err error
		if tg.arity == 5 {
			r, err = detector.CheckExtendedSpatialIdsArrayOverlap(c.IDs, c.IDs2)
		} else {
			r, err = detector.CheckSpatialIdsArrayOverlap(c.IDs, c.IDs2)
		}
		if err != nil {
			if r {
				fl.Add("result-with-error", "%s: true together with error %v", desc, err)
			}
			return
		}
		// weaker reading (i): the documented pairwise evaluation may stop at an overlapping pair before it reaches the malformed entry
		if r {
			if !refOverlapLists(validSublist(c.IDs, tg.arity), validSublist(c.IDs2, tg.arity)) {
				fl.Add("true-with-malformed", "%s: true although no pair of well-formed entries overlaps", desc)
			}
			return
		}
		need(err, " and the answer is false (every pair was examined)")
	case "transform.ConvertExtendedSpatialIDsToQuadkeysAndVerticalIDs":
		_, err := transform.ConvertExtendedSpatialIDsToQuadkeysAndVerticalIDs(c.IDs, z0, z1, 0, 0)
		need(err, "")
		_, err = transform.ConvertExtendedSpatialIDsToQuadkeysAndVerticalIDs(c.IDs, z0, z1, 100, -100)
		need(err, " (bit form)")
	case "transform.ConvertSpatialIDsToQuadkeysAndVerticalIDs":
		_, err := transform.ConvertSpatialIDsToQuadkeysAndVerticalIDs(c.IDs, z0, z1, 0, 0)
		need(err, "")
	case "transform.ConvertExtendedSpatialIDsToQuadkeysAndAltitudekeys":
		_, err := transform.ConvertExtendedSpatialIDsToQuadkeysAndAltitudekeys(c.IDs, z0, z1, 25, 1<<25)
		need(err, "")
	case "transform.FitClearanceAroundExtendedSpatialID":
		_, _, err := transform.FitClearanceAroundExtendedSpatialID(c.IDs[0], 0)
		if arityOK {
			// clearance 0 returns before the fields are interpreted only if nothing is measured; use a small clearance as well
			_, _, err2 := transform.FitClearanceAroundExtendedSpatialID(c.IDs[0], 0.001)
			need(err2, " (clearance 0.001)")
		} else {
			need(err, "")
		}
	case "object.NewExtendedSpatialID":
		_, err := object.NewExtendedSpatialID(c.IDs[0])
		need(err, "")
	case "object.ResetExtendedSpatialID":
		o, _ := object.NewExtendedSpatialID("1/0/0/1/0")
		need(o.ResetExtendedSpatialID(c.IDs[0]), "")
	}
}

// c15CallOnly calls the target with the case's lists and discards the outcome (the prior, well-formed call).
func c15CallOnly(c *CaseC15, fl *Fails) {
	defer func() { _ = recover() }()
	tg := c15Find(c.Fn)
	if tg == nil || len(c.IDs) == 0 || (tg.lists == 2 && len(c.IDs2) == 0) {
		return
	}
	c.Bad = 0
	saved := c.IDs[0]
	// checkC15Malformed returns early for a well-formed "bad" entry, so call the functions directly
	z0, z1 := c.Z[0], c.Z[1]
	switch c.Fn {
	case "integrate.ChangeExtendedSpatialIdsZoom":
		_, _ = integrate.ChangeExtendedSpatialIdsZoom(c.IDs, z0, z1)
	case "integrate.ChangeSpatialIdsZoom":
		_, _ = integrate.ChangeSpatialIdsZoom(c.IDs, z0)
	case "integrate.MergeExtendedSpatialIds":
		_, _ = integrate.MergeExtendedSpatialIds(c.IDs, z0, z1)
	case "integrate.MergeSpatialIds":
		_, _ = integrate.MergeSpatialIds(c.IDs, z0)
	case "operated.GetNspatialIdsAroundVoxcels":
		_, _ = operated.GetNspatialIdsAroundVoxcels(c.IDs, 1, 1)
	case "detector.CheckExtendedSpatialIdsOverlap":
		_, _ = detector.CheckExtendedSpatialIdsOverlap(c.IDs[0], c.IDs2[0])
	case "detector.CheckSpatialIdsOverlap":
		_, _ = detector.CheckSpatialIdsOverlap(c.IDs[0], c.IDs2[0])
	case "detector.CheckExtendedSpatialIdsArrayOverlap":
		_, _ = detector.CheckExtendedSpatialIdsArrayOverlap(c.IDs, c.IDs2)
	case "detector.CheckSpatialIdsArrayOverlap":
		_, _ = detector.CheckSpatialIdsArrayOverlap(c.IDs, c.IDs2)
	case "transform.ConvertExtendedSpatialIDsToQuadkeysAndVerticalIDs":
		_, _ = transform.ConvertExtendedSpatialIDsToQuadkeysAndVerticalIDs(c.IDs, z0, z1, 0, 0)
	case "transform.ConvertSpatialIDsToQuadkeysAndVerticalIDs":
		_, _ = transform.ConvertSpatialIDsToQuadkeysAndVerticalIDs(c.IDs, z0, z1, 0, 0)
	case "transform.ConvertExtendedSpatialIDsToQuadkeysAndAltitudekeys":
		_, _ = transform.ConvertExtendedSpatialIDsToQuadkeysAndAltitudekeys(c.IDs, z0, z1, 25, 1<<25)
	case "shape.ConvertSpatialIdsToExtendedSpatialIds":
		_, _ = shape.ConvertSpatialIdsToExtendedSpatialIds(c.IDs)
	case "shape.ConvertExtendedSpatialIdsToSpatialIds":
		_, _ = shape.ConvertExtendedSpatialIdsToSpatialIds(c.IDs)
	case "shape.GetPointOnExtendedSpatialId":
		_, _ = shape.GetPointOnExtendedSpatialId(saved, enum.Vertex)
	case "shape.GetPointOnSpatialId":
		_, _ = shape.GetPointOnSpatialId(saved, enum.Vertex)
	case "object.NewExtendedSpatialID", "object.ResetExtendedSpatialID":
		_, _ = object.NewExtendedSpatialID(saved)
	case "transform.FitClearanceAroundExtendedSpatialID":
		_, _, _ = transform.FitClearanceAroundExtendedSpatialID(saved, 0) // clearance 0 terminates on every grid
	default:
		_ = operated.GetShiftingSpatialID(saved, 1, -1, 1)
	}
}

func pt3(c *CaseC15) *object.Point {
	p, _ := object.NewPoint(c.F[0].V(), c.F[1].V(), c.F[2].V())
	return p
}

func checkC15Zoom(c *CaseC15, fl *Fails) {
	which, other := c.Z[0], c.Z[1]
	for _, bad := range c.Z[2:] {
		z := [2]int64{other, other}
		z[which] = bad
		n := -1
		var err error
		switch c.Fn {
		case "shape.GetSpatialIdsOnPoints":
			r, e := shape.GetSpatialIdsOnPoints([]*object.Point{pt3(c)}, bad)
			n, err = len(r), e
		case "shape.GetExtendedSpatialIdsOnPoints":
			r, e := shape.GetExtendedSpatialIdsOnPoints([]*object.Point{pt3(c)}, z[0], z[1])
			n, err = len(r), e
		case "shape.GetSpatialIdsOnLine":
			r, e := shape.GetSpatialIdsOnLine(pt3(c), pt3(c), bad)
			n, err = len(r), e
		case "shape.GetExtendedSpatialIdsOnLine":
			r, e := shape.GetExtendedSpatialIdsOnLine(pt3(c), pt3(c), z[0], z[1])
			n, err = len(r), e
		case "transform.GetExtendedSpatialIdsWithinRadiusOfLine":
			r, e := transform.GetExtendedSpatialIdsWithinRadiusOfLine(pt3(c), pt3(c), 0, z[0], z[1], true)
			n, err = len(r), e
		case "integrate.ChangeExtendedSpatialIdsZoom":
			r, e := integrate.ChangeExtendedSpatialIdsZoom(c.IDs, z[0], z[1])
			n, err = len(r), e
		case "integrate.ChangeSpatialIdsZoom":
			r, e := integrate.ChangeSpatialIdsZoom(c.IDs, bad)
			n, err = len(r), e
		case "integrate.MergeExtendedSpatialIds":
			r, e := integrate.MergeExtendedSpatialIds(c.IDs, z[0], z[1])
			n, err = len(r), e
		case "integrate.MergeSpatialIds":
			r, e := integrate.MergeSpatialIds(c.IDs, bad)
			n, err = len(r), e
		case "transform.ConvertExtendedSpatialIDsToQuadkeysAndVerticalIDs":
			r, e := transform.ConvertExtendedSpatialIDsToQuadkeysAndVerticalIDs(c.IDs, z[0], z[1], 0, 0)
			n, err = len(r), e
		case "transform.ConvertSpatialIDsToQuadkeysAndVerticalIDs":
			r, e := transform.ConvertSpatialIDsToQuadkeysAndVerticalIDs(c.IDs, z[0], z[1], 0, 0)
			n, err = len(r), e
		case "transform.ConvertExtendedSpatialIDsToQuadkeysAndAltitudekeys":
			r, e := transform.ConvertExtendedSpatialIDsToQuadkeysAndAltitudekeys(c.IDs, z[0], z[1], 25, 1<<25)
			n, err = len(r), e
		case "transform.ConvertQuadkeysAndVerticalIDsToExtendedSpatialIDs":
			q := object.NewQuadkeyAndVerticalID(clamp64(other, 1, 31), 1, other, 0, 0, 0)
			r, e := transform.ConvertQuadkeysAndVerticalIDsToExtendedSpatialIDs([]*object.QuadkeyAndVerticalID{q}, z[0], z[1])
			n, err = len(r), e
		case "transform.ConvertQuadkeysAndVerticalIDsToSpatialIDs":
			q := object.NewQuadkeyAndVerticalID(clamp64(other, 1, 31), 1, other, 0, 0, 0)
			r, e := transform.ConvertQuadkeysAndVerticalIDsToSpatialIDs([]*object.QuadkeyAndVerticalID{q}, bad)
			n, err = len(r), e
		case "transform.ConvertQuadkeysAndVerticalIDs(input-zoom)":
			q := object.NewQuadkeyAndVerticalID(z[0], 1, z[1], 0, 0, 0)
			r, e := transform.ConvertQuadkeysAndVerticalIDsToExtendedSpatialIDs([]*object.QuadkeyAndVerticalID{q}, clamp64(other, 1, 31), other)
			n, err = len(r), e
		case "transform.ConvertTileXYZsToExtendedSpatialIDs":
			tl, _ := object.NewTileXYZ(other, 0, 0, other, 0)
			r, e := transform.ConvertTileXYZsToExtendedSpatialIDs([]*object.TileXYZ{tl}, 25, 0, bad)
			n, err = len(r), e
		case "transform.ConvertTileXYZsToSpatialIDs":
			tl, _ := object.NewTileXYZ(other, 0, 0, other, 0)
			r, e := transform.ConvertTileXYZsToSpatialIDs([]*object.TileXYZ{tl}, 25, 0, bad)
			n, err = len(r), e
		case "object.NewTileXYZ":
			tl, e := object.NewTileXYZ(z[0], 0, 0, z[1], 0)
			err = e
			n = 0
			if e != nil && tl != nil {
				n = 1
			}
		case "object.TileXYZ.SetHZoom":
			tl, _ := object.NewTileXYZ(3, 0, 0, 3, 0)
			err = tl.SetHZoom(bad)
			n = 0
		case "object.TileXYZ.SetVZoom":
			tl, _ := object.NewTileXYZ(3, 0, 0, 3, 0)
			err = tl.SetVZoom(bad)
			n = 0
		default:
			return
		}
		kind := "zoom-accepted"
		if strings.HasPrefix(c.Fn, "object.") {
			kind = "object-zoom-accepted"
			if bad < 0 {
				kind = "object-negative-zoom-accepted"
			}
		}
		if err == nil {
			fl.Add(kind, "%s: zoom argument %d (position %d, other zoom %d) accepted without error (%d results)", c.Fn, bad, which, other, n)
			return // do not try the far value: a wrongly accepted far zoom may do unbounded work
		}
		if n > 0 {
			fl.Add("result-with-error", "%s: zoom argument %d rejected (%v) but %d results returned", c.Fn, bad, err, n)
			return
		}
	}
}

func checkC15Point(c *CaseC15, fl *Fails) {
	lon, lat, alt := c.F[0].V(), c.F[1].V(), c.F[2].V()
	badLon := math.Abs(lon) > 180
	badLat := math.Abs(lat) > latLimit+1.5e-10
	maybeLat := math.Abs(lat) > latLimit && !badLat // inside the truncation step: either outcome accepted
	var p *object.Point
	var err error
	switch c.Fn {
	case "object.NewPoint":
		p, err = object.NewPoint(lon, lat, alt)
	case "object.Point.SetLon":
		p, _ = object.NewPoint(1, 2, alt)
		err = p.SetLon(lon)
		badLat, maybeLat, lat = false, false, 2
	default:
		p, _ = object.NewPoint(lon0(lon), 2, alt)
		err = p.SetLat(lat)
		badLon, lon = false, lon0(lon)
	}
	if badLon || badLat {
		if err == nil {
			fl.Add("coordinate-accepted", "%s(%v, %v, %v): out-of-range coordinate accepted", c.Fn, lon, lat, alt)
		}
		return
	}
	if err != nil {
		if !maybeLat {
			fl.Add("valid-point-rejected", "%s(%v, %v, %v): %v", c.Fn, lon, lat, alt, err)
		}
		return
	}
	if math.Float64bits(p.Lon()) != math.Float64bits(lon) {
		fl.Add("lon-changed", "%s: longitude %v stored as %v", c.Fn, lon, p.Lon())
	}
	if math.Float64bits(p.Alt()) != math.Float64bits(alt) {
		fl.Add("alt-changed", "%s: altitude %v stored as %v", c.Fn, alt, p.Alt())
	}
	st := p.Lat()
	if !(math.Abs(st) <= math.Abs(lat)+0x1p-45 && math.Abs(lat)-math.Abs(st) < 1e-10+0x1p-45 && (st == 0 || (st > 0) == (lat > 0))) {
		fl.Add("lat-cut", "%s: latitude %v stored as %v (must be cut toward zero by < 1e-10)", c.Fn, lat, st)
	}
}

func lon0(lon float64) float64 {
	if math.Abs(lon) > 180 || lon != lon {
		return 0
	}
	return lon
}

func checkC15Nil(c *CaseC15, fl *Fails) {
	h, v, nilAt, npts := c.Z[0], c.Z[1], int(c.Z[2]), int(c.Z[3])
	p := pt3(c)
	if p == nil {
		return
	}
	var n int
	var err error
	switch c.Fn {
	case "shape.GetExtendedSpatialIdsOnPoints", "shape.GetSpatialIdsOnPoints":
		pts := make([]*object.Point, npts)
		for i := range pts {
			pts[i] = p
		}
		pts[nilAt%npts] = nil
		var r []string
		if c.Fn == "shape.GetSpatialIdsOnPoints" {
			r, err = shape.GetSpatialIdsOnPoints(pts, h)
		} else {
			r, err = shape.GetExtendedSpatialIdsOnPoints(pts, h, v)
		}
		n = len(r)
	case "shape.GetExtendedSpatialIdsOnLine", "shape.GetSpatialIdsOnLine":
		a, b := p, p
		switch nilAt % 3 {
		case 0:
			a = nil
		case 1:
			b = nil
		default:
			a, b = nil, nil
		}
		var r []string
		if c.Fn == "shape.GetSpatialIdsOnLine" {
			r, err = shape.GetSpatialIdsOnLine(a, b, h)
		} else {
			r, err = shape.GetExtendedSpatialIdsOnLine(a, b, h, v)
		}
		n = len(r)
	default:
		a, b := p, p
		switch nilAt % 3 {
		case 0:
			a = nil
		case 1:
			b = nil
		default:
			a, b = nil, nil
		}
		r, e := transform.GetExtendedSpatialIdsWithinRadiusOfLine(a, b, 0, h, v, true)
		n, err = len(r), e
	}
	if err == nil {
		fl.Add("nil-accepted", "%s with a nil point: no error", c.Fn)
	} else if n != 0 {
		fl.Add("result-with-error", "%s with a nil point: %d ids with error", c.Fn, n)
	}
}

func checkC15Negative(c *CaseC15, fl *Fails) {
	switch c.Fn {
	case "operated.GetNspatialIdsAroundVoxcels":
		l := [2]int64{c.Z[1], c.Z[1]}
		l[c.Z[2]] = c.Z[0]
		r, err := operated.GetNspatialIdsAroundVoxcels(c.IDs, l[0], l[1])
		if err == nil {
			fl.Add("negative-accepted", "GetNspatialIdsAroundVoxcels(%v, %d, %d): no error", c.IDs, l[0], l[1])
		} else if len(r) != 0 {
			fl.Add("result-with-error", "GetNspatialIdsAroundVoxcels(%v, %d, %d): %d ids with error", c.IDs, l[0], l[1], len(r))
		}
	case "transform.FitClearanceAroundExtendedSpatialID":
		_, _, err := transform.FitClearanceAroundExtendedSpatialID(c.IDs[0], c.F[0].V())
		if err == nil {
			fl.Add("negative-accepted", "FitClearanceAroundExtendedSpatialID(%s, %v): no error", c.IDs[0], c.F[0].V())
		}
	default:
		p, _ := object.NewPoint(c.F[1].V(), c.F[2].V(), 10)
		if p == nil {
			return
		}
		r, err := transform.GetExtendedSpatialIdsWithinRadiusOfLine(p, p, c.F[0].V(), 10, 10, c.Z[2] == 1)
		if err == nil {
			fl.Add("negative-accepted", "GetExtendedSpatialIdsWithinRadiusOfLine(radius %v): no error", c.F[0].V())
		} else if len(r) != 0 {
			fl.Add("result-with-error", "GetExtendedSpatialIdsWithinRadiusOfLine(radius %v): %d ids with error", c.F[0].V(), len(r))
		}
	}
}

func sweepC15(tier string, emit func(*CaseC15)) {
	whole := []string{"", "/", "//", "///", "////", "/////", "1", "1/0", "1/0/0", "1/0/0/0", "1/0/0/1/0", "1/0/0/1/0/0", "a/b/c/d", "a/b/c/d/e", " 1/0/0/1/0", "1/0/0/1/0 ", "1/0/0/1/0/", "/1/0/0/1/0",
		"3/a/1/1", "3/1/a/1", "3/1/1/a", "a/1/1/1", "3/a/1/3/1", "1//0/1/0", "1/0/0/1/", "1/0/0//0", "9223372036854775808/0/0/1/0", "1/9223372036854775808/0/1/0", "1/0/0/1/-9223372036854775809", "1/0/0/1/1e3", "1/0/0/1/0x1", "１/0/0/1/0", "1/0/0/1/0\x00"}
	for _, tg := range c15IDTargets {
		for _, w := range whole {
			if wellFormed(w, tg.arity) {
				continue
			}
			valid := idOf(ref.Box{H: 3, X: 1, Y: 1, V: 3, F: 1}, tg.arity)
			for _, pos := range []int{0, 1} {
				c := &CaseC15{Fn: tg.name, Kind: "malformed-id", Edit: "whole-string", Z: []int64{3, 3}}
				if tg.single {
					if pos == 1 && tg.lists != 2 {
						continue
					}
					if tg.lists == 2 {
						c.IDs, c.IDs2 = []string{valid}, []string{valid}
						if pos == 0 {
							c.IDs[0] = w
						} else {
							c.IDs2[0] = w
						}
						c.Bad = pos
					} else {
						c.IDs = []string{w}
						c.Bad = 0
					}
				} else {
					c.IDs = []string{valid, valid}
					c.IDs[pos] = w
					c.Bad = pos
					if tg.lists == 2 {
						c.IDs2 = []string{idOf(ref.Box{H: 3, X: 5, Y: 5, V: 3, F: -2}, tg.arity)}
					}
				}
				emit(c)
			}
		}
	}
	names := append([]string{}, c15ZoomTargets...)
	for _, tg := range c15IDTargets {
		if tg.nzoom > 0 {
			names = append(names, tg.name)
		}
	}
	for _, fn := range names {
		tg := c15Find(fn)
		for which := int64(0); which < 2; which++ {
			for _, bad := range []int64{-1, 36, 0, 32} {
				quad := (tg != nil && tg.quadkey) || strings.Contains(fn, "input-zoom")
				if (bad == 0 || bad == 32) && !(quad && which == 0) {
					continue
				}
				c := &CaseC15{Fn: fn, Kind: "bad-zoom", Bad: -1, Z: []int64{which, 1, bad}, F: []F64{10, 10, 10}}
				if bad > 30 {
					c.Z[1] = 30
				}
				if tg != nil {
					z := c.Z[1]
					c.IDs = []string{idOf(ref.Box{H: z, X: 0, Y: 0, V: z, F: 0}, tg.arity)}
				}
				emit(c)
			}
		}
	}
	for _, lon := range []float64{180, -180, math.Nextafter(180, 181), math.Nextafter(-180, -181), math.Inf(1), math.Inf(-1)} {
		for _, lat := range []float64{latLimit, -latLimit, latLimit + 2e-10, -latLimit - 2e-10, 90, math.Inf(1), 35.6812360001, -1e-11} {
			for _, fn := range []string{"object.NewPoint", "object.Point.SetLon", "object.Point.SetLat"} {
				emit(&CaseC15{Fn: fn, Kind: "bad-point", Bad: -1, F: []F64{F64(lon), F64(lat), F64(math.Inf(-1))}})
			}
		}
	}
}

func init() {
	register(PropT[CaseC15]{
		ID:   "C15",
		Rule: "rapid: one call of one exported function with one invalid argument. 50% malformed ID strings: a structural edit of a valid ID (field deleted/added/emptied, two IDs joined by a foreign separator, spaces, hostile fields such as 1e3, 0x10, full-width digits, 2^63, NUL, suffixes, leading/trailing slash, whole hostile strings) alone or at any position of a list of valid IDs, for 23 ID-taking functions, with valid zoom arguments near the IDs' own zooms, each preceded by a call of the same function with the well-formed list it was derived from (history); 20% invalid zoom arguments (first -1/36 resp. 0/32 for quadkeys, then far values up to +-2^63, on either zoom position) for 21 functions; 10% coordinates (lon/lat just beyond the limits, huge, +-Inf; and valid points for the storage clause); 10% nil points / unknown options; 10% negative radii and layer counts, maxHeight<minHeight. Sweep: 33 hostile whole strings x every ID-taking function x positions; -1/36/0/32 on every zoom position of every zoom-taking function; limit coordinates. Non-trivial: malformed string one edit away from a valid ID or behind a valid list prefix, numeric argument within 1 of its bound, coordinate within 1e-6 of a limit, every nil/option/negative/heights case.",
		Assumptions: []string{
			"oracle: outcome classification per call: recovered panic = violation; nil error on an excluded input = violation; non-empty list / true together with an error where the documentation promises empty / false = violation",
			"an ID is malformed iff it does not have exactly 4/5 '/'-separated fields each accepted by strconv.ParseInt (the library's notion of an integer field, e.g. '+5' and '007' are integers)",
			"weaker readings, to stay sound: (i) array overlap checks stop at the first overlapping pair, so (true,nil) with a malformed entry present is accepted iff well-formed entries really overlap; (false,nil) never is; (ii) GetNspatialIdsAroundVoxcels may either fail or contribute only empty IDs for a malformed entry",
			"latitudes in (85.0511287798, 85.0511287798+1.5e-10] may be accepted or rejected (the limit is applied after the 1e-10 truncation)",
			"zoom fields inside well-formed IDs are kept in 0..35 (documented unbounded memory outside); far zoom arguments are only tried after the near ones were rejected",
			"GetVoxelIDfromSpatialID has no error result and is outside the property's quantifier (error-returning functions); it is not called",
		},
		Gen: genC15, Check: checkC15, Classify: classifyC15, Sweep: sweepC15,
		SweepScopes: func(tier string) []string {
			return []string{"33 hostile whole strings x 23 ID-taking functions x list positions (exhaustive over the table)", "zoom arguments -1 and 36 (0 and 32 for quadkey zooms) on each zoom position of 21 functions (exhaustive over the table)", "6 longitudes x 8 latitudes at / beyond the limits x NewPoint, SetLon, SetLat"}
		},
	})
}
