package checks

import (
	"fmt"
	"reflect"
	"sort"
	"strconv"

	"github.com/trajectoryjp/spatial_id_go/v4/common/object"
	"github.com/trajectoryjp/spatial_id_go/v4/detector"
	"github.com/trajectoryjp/spatial_id_go/v4/integrate"
	"github.com/trajectoryjp/spatial_id_go/v4/operated"
	"github.com/trajectoryjp/spatial_id_go/v4/shape"
	"github.com/trajectoryjp/spatial_id_go/v4/transform"
	"pgregory.net/rapid"

	"verif/ref"
)

// CaseC16 wraps one case of another property's generator (the argument list of a set-valued operation)
// together with a permutation and a duplication pattern of its list argument(s).
type CaseC16 struct {
	Op   string
	C03  *CaseC03 `json:",omitempty"`
	C04  *CaseC04 `json:",omitempty"`
	C05  *CaseC05 `json:",omitempty"`
	C06  *CaseC06 `json:",omitempty"`
	C08  *CaseC08 `json:",omitempty"`
	C11  *CaseC11 `json:",omitempty"`
	C13  *CaseC13 `json:",omitempty"`
	C14  *CaseC14 `json:",omitempty"`
	Perm []int    // permutation of the (first) list argument
	Prm2 []int    // permutation of the second list argument (overlap checks)
	Dup  []int    // indices (mod length) of entries appended once more
}

var c16Ops = []string{"zoom", "zoom", "merge", "merge", "overlap", "line", "corridor", "neighbours", "quadkeys", "altkeys", "bitkeys", "quadkeys-back", "tiles"}

func genPerm(t *rapid.T, label string, n int) []int {
	idx := make([]int, n)
	for i := range idx {
		idx[i] = i
	}
	if n > 1 {
		idx = rapid.Permutation(idx).Draw(t, label)
	}
	return idx
}

func genC16(t *rapid.T) *CaseC16 {
	c := &CaseC16{Op: rapid.SampledFrom(c16Ops).Draw(t, "op")}
	n, n2 := 0, 0
	switch c.Op {
	case "zoom":
		c.C03 = genC03(t)
		for len(c.C03.Boxes) < 3 && !c.C03.Spatial {
			c.C03.Boxes = append(c.C03.Boxes, genRelative(t, "extra", ref.Box{H: 3, X: 1, Y: 2, V: 4, F: -3}, 2, 2))
			c.C03.H, c.C03.V = boundTargets(c.C03.Boxes, c.C03.H, c.C03.V, false)
		}
		n = len(c.C03.Boxes)
	case "merge":
		c.C04 = genC04(t)
		n = len(c.C04.Boxes)
	case "overlap":
		c.C05 = genC05(t)
		if rapid.Bool().Draw(t, "nestedInList") {
			// nesting inside the first list: a fine voxel G, its ancestor F and a voxel X that meets F outside G (the
			// only overlapping pair is (F, X)); the answer must not depend on whether G or F is listed first
			var f ref.Box
			if c.C05.Spatial {
				f = genSpatialBox(t, "nf")
				f.H, f.V = min64(f.H, 32), min64(f.H, 32)
				n := int64(1) << uint(f.H)
				f.X, f.Y, f.F = f.X%n, f.Y%n, clamp64(f.F, -n/2, n/2-1)
			} else {
				f = genBoxAt(t, "nf", genZoom(t, "nfh", 0, 32), genZoom(t, "nfv", 0, 32))
			}
			d := rapid.Int64Range(1, 3).Draw(t, "nd")
			g := ref.Box{H: f.H + d, X: f.X << uint(d), Y: f.Y << uint(d), V: f.V + d, F: f.F << uint(d)}
			x := ref.Box{H: f.H + d, X: f.X<<uint(d) + 1, Y: f.Y<<uint(d) + (int64(1) << uint(d)) - 1, V: f.V + d, F: f.F<<uint(d) + (int64(1) << uint(d)) - 1}
			c.C05.A = append([]ref.Box{g, f}, c.C05.A...)
			if len(c.C05.A) > 4 {
				c.C05.A = c.C05.A[:4]
			}
			c.C05.B = []ref.Box{x}
		}
		n, n2 = len(c.C05.A), len(c.C05.B)
	case "line":
		c.C06 = genC06(t)
	case "corridor":
		c.C14 = genC14(t)
	case "neighbours":
		c.C08 = genC08(t)
		n = len(c.C08.Boxes)
	case "quadkeys", "altkeys", "bitkeys", "quadkeys-back":
		c.C11 = genC11(t)
		if c.Op == "bitkeys" {
			// bit-form vertical IDs over [-4096, 4096) at a small subdivision zoom: runs stay short
			c.C11.OutV = c.C11.OutV % 9
			for i := range c.C11.Boxes {
				if c.C11.Boxes[i].V < 12 {
					d := 12 - c.C11.Boxes[i].V
					c.C11.Boxes[i].V, c.C11.Boxes[i].F = 12, c.C11.Boxes[i].F<<uint(d)
				}
			}
		}
		if c.Op == "altkeys" {
			for i := range c.C11.Boxes {
				if c.C11.Boxes[i].V > 25 {
					d := c.C11.Boxes[i].V - 25
					c.C11.Boxes[i].V, c.C11.Boxes[i].F = 25, c.C11.Boxes[i].F>>uint(d)
				}
			}
			c.C11.E, c.C11.Off = 25, 1<<25
		}
		n = len(c.C11.Boxes)
	case "tiles":
		c.C13 = genC13(t)
		n = len(c.C13.Tiles)
	}
	c.Perm = genPerm(t, "perm", n)
	c.Prm2 = genPerm(t, "perm2", n2)
	if n > 0 {
		for i := rapid.IntRange(0, 3).Draw(t, "ndup"); i > 0; i-- {
			c.Dup = append(c.Dup, rapid.IntRange(0, n-1).Draw(t, "dup"))
		}
	}
	return c
}

func isIdentity(p []int) bool {
	for i, v := range p {
		if i != v {
			return false
		}
	}
	return true
}

func classifyC16(c *CaseC16) (bool, []string) {
	cl := []string{"op=" + c.Op}
	nt := false
	switch c.Op {
	case "line", "corridor":
		nt = true // only repeat-determinism and input preservation apply
	default:
		if len(c.Perm) >= 3 && len(c.Dup) > 0 && !isIdentity(c.Perm) {
			nt = true
			cl = append(cl, "list>=3,dup,non-identity-perm")
		}
	}
	if len(c.Dup) > 0 {
		cl = append(cl, "with-duplicates")
	}
	if !isIdentity(c.Perm) {
		cl = append(cl, "permuted")
	}
	return nt, cl
}

// arrange applies a permutation and the duplication pattern to a list.
func arrange[T any](list []T, perm []int, dup []int) []T {
	out := make([]T, 0, len(list)+len(dup))
	if len(perm) == len(list) {
		for _, i := range perm {
			out = append(out, list[i])
		}
	} else {
		out = append(out, list...)
	}
	for _, d := range dup {
		if len(list) > 0 {
			out = append(out, list[d%len(list)])
		}
	}
	return out
}

type c16Result struct {
	raw   []string // the slice returned by the library (kept to see whether later calls change it)
	set   []string // canonical: sorted, unique
	dup   string   // a duplicated element of the raw result, if any
	err   string
	input string // description of an input modification, if any
}

func canon(raw []string) ([]string, string) {
	s := sortedCopy(raw)
	out := s[:0:0]
	dup := ""
	for i, v := range s {
		if i > 0 && v == s[i-1] {
			dup = v
			continue
		}
		out = append(out, v)
	}
	return out, dup
}

func errStr(err error) string {
	if err == nil {
		return ""
	}
	return "error"
}

// c16Run executes the operation on the given arrangement (perm/dup may be nil = as generated).
func c16Run(c *CaseC16, perm, perm2, dup []int) (r c16Result) {
	check := func(before, after any, what string) {
		if b, ok := before.([]string); ok {
			if a := after.([]string); len(a) == len(b) && (len(a) == 0 || reflect.DeepEqual(a, b)) {
				return
			}
		}
		if !reflect.DeepEqual(before, after) {
			r.input = what + " was modified by the call"
		}
	}
	// every ID slice handed to the library is a window of a longer slice whose tail holds sentinels: a callee that
	// appends to its argument would overwrite the caller's data behind the window
	const sentinel = "caller-data-behind-the-window"
	window := func(in []string) []string {
		full := make([]string, len(in), len(in)+6)
		copy(full, in)
		tail := full[len(in):cap(full)]
		for i := range tail {
			tail[i] = sentinel
		}
		return full
	}
	tailIntact := func(in []string, what string) {
		tail := in[len(in):cap(in)]
		for _, s := range tail {
			if s != sentinel {
				r.input = what + ": the caller's data behind the argument window (spare capacity) was overwritten with " + strconv.Quote(s)
				return
			}
		}
	}
	var rawRes []string
	strs := func(raw []string, err error) {
		r.set, r.dup = canon(raw)
		r.err = errStr(err)
		rawRes = raw
		r.raw = raw
	}
	// the result belongs to the caller and must not share storage with the arguments: after the call the argument
	// slice is overwritten and the result compared with a copy taken before
	scribble := func(in []string) {
		snap := append([]string(nil), rawRes...)
		for i := range in {
			in[i] = "overwritten-by-the-caller"
		}
		if len(snap) != len(rawRes) {
			r.input = "the result changed length when the caller overwrote its argument slice"
			return
		}
		for i := range snap {
			if snap[i] != rawRes[i] {
				r.input = "the result shares storage with the argument slice (changed when the caller overwrote its argument)"
				return
			}
		}
	}
	switch c.Op {
	case "zoom":
		bs := arrange(c.C03.Boxes, perm, dup)
		var in []string
		if c.C03.Spatial {
			in = window(spatialIDs(bs))
		} else {
			in = window(boxesExt(bs))
		}
		defer tailIntact(in, "zoom change")
		cp := append([]string(nil), in...)
		if c.C03.Spatial {
			strs(integrate.ChangeSpatialIdsZoom(in, c.C03.H))
		} else {
			strs(integrate.ChangeExtendedSpatialIdsZoom(in, c.C03.H, c.C03.V))
		}
		check(cp, in, "input ID slice")
		scribble(in)
	case "merge":
		bs := arrange(c.C04.Boxes, perm, dup)
		var in []string
		if c.C04.Spatial {
			in = window(spatialIDs(bs))
		} else {
			in = window(boxesExt(bs))
		}
		defer tailIntact(in, "merge")
		cp := append([]string(nil), in...)
		if c.C04.Spatial {
			strs(integrate.MergeSpatialIds(in, c.C04.H))
		} else {
			strs(integrate.MergeExtendedSpatialIds(in, c.C04.H, c.C04.V))
		}
		check(cp, in, "input ID slice")
		scribble(in)
	case "overlap":
		a, b := arrange(c.C05.A, perm, dup), arrange(c.C05.B, perm2, nil)
		var ia, ib []string
		if c.C05.Spatial {
			ia, ib = window(spatialIDs(a)), window(spatialIDs(b))
		} else {
			ia, ib = window(boxesExt(a)), window(boxesExt(b))
		}
		defer tailIntact(ia, "overlap check, first list")
		defer tailIntact(ib, "overlap check, second list")
		ca, cb := append([]string(nil), ia...), append([]string(nil), ib...)
		var ov bool
		var err error
		if c.C05.Spatial {
			ov, err = detector.CheckSpatialIdsArrayOverlap(ia, ib)
		} else {
			ov, err = detector.CheckExtendedSpatialIdsArrayOverlap(ia, ib)
		}
		r.set, r.err = []string{fmt.Sprint(ov)}, errStr(err)
		check(ca, ia, "first ID slice")
		check(cb, ib, "second ID slice")
	case "line":
		s, e := c.C06.S.obj(), c.C06.E.obj()
		if s == nil || e == nil {
			return r
		}
		s0, e0 := *s, *e
		strs(shape.GetExtendedSpatialIdsOnLine(s, e, c.C06.H, c.C06.V))
		check([]object.Point{s0, e0}, []object.Point{*s, *e}, "an end point")
	case "corridor":
		s, e := c.C14.S.obj(), c.C14.E.obj()
		if s == nil || e == nil || c.C14.Radius.V() > c14RadiusCap(c.C14.S, c.C14.E, c.C14.H)*1.0000001 || c.C14.H < 2 {
			return r
		}
		s0, e0 := *s, *e
		strs(transform.GetExtendedSpatialIdsWithinRadiusOfLine(s, e, c.C14.Radius.V(), c.C14.H, c.C14.V, len(c.Dup)%2 == 0))
		check([]object.Point{s0, e0}, []object.Point{*s, *e}, "an end point")
	case "neighbours":
		in := window(boxesExt(arrange(c.C08.Boxes, perm, dup)))
		defer tailIntact(in, "N-layer neighbourhood")
		cp := append([]string(nil), in...)
		strs(operated.GetNspatialIdsAroundVoxcels(in, c.C08.HL, c.C08.VL))
		check(cp, in, "input ID slice")
		scribble(in)
		// the single-voxel queries: multiset determinism
		id := c.C08.Boxes[0].Ext()
		extra := append(append(operated.Get6spatialIdsAdjacentToFaces(id), operated.Get8spatialIdsAroundHorizontal(id)...), operated.Get26spatialIdsAroundVoxel(id)...)
		sort.Strings(extra)
		r.set = append(r.set, "|"+fmt.Sprint(extra))
	case "quadkeys", "altkeys", "bitkeys":
		in := window(boxesExt(arrange(c.C11.Boxes, perm, dup)))
		defer tailIntact(in, "quadkey conversion")
		cp := append([]string(nil), in...)
		var raw []string
		var err error
		if c.Op == "quadkeys" || c.Op == "bitkeys" {
			mx, mn := 0.0, 0.0
			if c.Op == "bitkeys" {
				mx, mn = 4096, -4096
			}
			gs, e := transform.ConvertExtendedSpatialIDsToQuadkeysAndVerticalIDs(in, c.C11.OutH, c.C11.OutV, mx, mn)
			err = e
			for _, g := range gs {
				for _, p := range g.InnerIDList() {
					raw = append(raw, fmt.Sprintf("%d/%d/%d/%d", g.QuadkeyZoom(), p[0], g.VerticalZoom(), p[1]))
				}
			}
		} else {
			gs, e := transform.ConvertExtendedSpatialIDsToQuadkeysAndAltitudekeys(in, c.C11.OutH, c.C11.OutV, c.C11.E, c.C11.Off)
			err = e
			for _, g := range gs {
				for _, p := range g.InnerIDList() {
					raw = append(raw, fmt.Sprintf("%d/%d/%d/%d", g.QuadkeyZoom(), p[0], g.AltitudekeyZoom(), p[1]))
				}
			}
		}
		strs(raw, err)
		check(cp, in, "input ID slice")
	case "quadkeys-back":
		bs := arrange(c.C11.Boxes, perm, dup)
		var list []*object.QuadkeyAndVerticalID
		var snap []object.QuadkeyAndVerticalID
		for _, b := range bs {
			q := object.NewQuadkeyAndVerticalID(b.H, ref.Quadkey(b.H, b.X, b.Y), b.V, b.F, 0, 0)
			list = append(list, q)
			snap = append(snap, *q)
		}
		bh := clamp64(c.C11.BackH, 0, 35)
		bv := clamp64(c.C11.BackV, 0, 35)
		// bounded zoom-in
		for _, b := range bs {
			for bh > b.H+2 {
				bh--
			}
			for bv > b.V+3 {
				bv--
			}
		}
		strs(transform.ConvertQuadkeysAndVerticalIDsToExtendedSpatialIDs(list, bh, bv))
		for i, q := range list {
			if *q != snap[i] {
				r.input = "a QuadkeyAndVerticalID object was modified by the call"
			}
		}
	case "tiles":
		if !c13Bounded(c.C13) {
			return r
		}
		tls := arrange(c.C13.Tiles, perm, dup)
		var in []*object.TileXYZ
		var snap []object.TileXYZ
		for _, tl := range tls {
			o, err := object.NewTileXYZ(tl.H, tl.X, tl.Y, tl.V, tl.Z)
			if err != nil {
				return r
			}
			in = append(in, o)
			snap = append(snap, *o)
		}
		out, err := transform.ConvertTileXYZsToExtendedSpatialIDs(in, c.C13.E, c.C13.Off, c.C13.OutV)
		var raw []string
		for _, o := range out {
			raw = append(raw, o.ID())
		}
		strs(raw, err)
		sp, err2 := transform.ConvertTileXYZsToSpatialIDs(in, c.C13.E, c.C13.Off, c.C13.OutV)
		sset, _ := canon(sp)
		r.set = append(r.set, "|spatial:"+fmt.Sprint(sset)+errStr(err2))
		for i, o := range in {
			if *o != snap[i] {
				r.input = "a TileXYZ object was modified by the call"
			}
		}
	}
	return r
}

// c16MutatePoints: results depend on the coordinates of the points, not on the identity or the history of the
// *object.Point values. The same two objects are first used with other coordinates (the end points swapped and
// moved), then set back in place with their setters to the case's coordinates; the query on the re-used objects
// must equal the query on fresh objects. The point-list lookup is exercised the same way on one shared slice.
func c16MutatePoints(c *CaseC16, fl *Fails, desc string) {
	var sp, ep Pt
	var h, v int64
	if c.Op == "line" {
		sp, ep, h, v = c.C06.S, c.C06.E, c.C06.H, c.C06.V
	} else {
		sp, ep, h, v = c.C14.S, c.C14.E, c.C14.H, c.C14.V
		if c.C14.Radius.V() > c14RadiusCap(c.C14.S, c.C14.E, c.C14.H)*1.0000001 || c.C14.H < 2 {
			return
		}
	}
	query := func(a, b *object.Point) ([]string, error) {
		if c.Op == "line" {
			return shape.GetExtendedSpatialIdsOnLine(a, b, h, v)
		}
		return transform.GetExtendedSpatialIdsWithinRadiusOfLine(a, b, c.C14.Radius.V(), h, v, true)
	}
	fresh, err := query(sp.obj(), ep.obj())
	if err != nil {
		return
	}
	want, _ := canon(fresh)
	// re-used objects: first hold other coordinates (a neighbouring segment), get queried, then are moved in place
	wl, hl, _ := localSizes(sp, h, v)
	a, b := ep.obj(), clampPt(Pt{F64(sp.Lon.V() + 1.5*wl), F64(sp.Lat.V() - 1.5*hl), sp.Alt}).obj()
	if a == nil || b == nil {
		return
	}
	_, _ = query(a, b)
	_ = a.SetLon(sp.Lon.V())
	_ = a.SetLat(sp.Lat.V())
	a.SetAlt(sp.Alt.V())
	_ = b.SetLon(ep.Lon.V())
	_ = b.SetLat(ep.Lat.V())
	b.SetAlt(ep.Alt.V())
	got, err := query(a, b)
	gs, _ := canon(got)
	if err != nil || !sameStrings(gs, want) {
		fl.Add("object-history-"+c.Op, "%s: the query on two re-used *Point objects (moved in place with SetLon/SetLat/SetAlt after an earlier query) returns %d ids, on fresh objects with the same coordinates %d (e.g. %q, err %v)", desc, len(gs), len(want), firstDiff(want, gs), err)
	}
	// point-list lookup on one shared slice whose elements are moved in place between two calls
	pts := []*object.Point{a, b}
	first, err1 := shape.GetExtendedSpatialIdsOnPoints(pts, h, v)
	_ = a.SetLon(ep.Lon.V())
	_ = a.SetLat(ep.Lat.V())
	a.SetAlt(ep.Alt.V())
	second, err2 := shape.GetExtendedSpatialIdsOnPoints(pts, h, v)
	if err1 == nil && err2 == nil && len(first) == 2 && len(second) == 2 && second[0] != first[1] {
		fl.Add("object-history-points", "%s: after moving pts[0] onto pts[1]'s coordinates the lookup returns %q for it, but %q for pts[1]", desc, second[0], first[1])
	}
}

// c16Disturb derives a related argument list: variant 0 moves every box one zoom finer keeping its index numbers,
// variant 1 one zoom coarser keeping its index numbers (where still valid), variant 2 shifts indices by one.
func c16Disturb(c *CaseC16, variant int) *CaseC16 {
	mod := func(bs []ref.Box) []ref.Box {
		out := make([]ref.Box, 0, len(bs))
		for _, b := range bs {
			n := b
			switch variant {
			case 0:
				n.H, n.V = b.H+1, b.V+1
			case 1:
				n.H, n.V = b.H-1, b.V-1
			default:
				n.X, n.F = b.X+1, b.F+1
			}
			if n.Valid() && (b.H != b.V || spatialValid(n) || !spatialValid(b)) {
				out = append(out, n)
			} else {
				out = append(out, b)
			}
		}
		return out
	}
	d := *c
	switch c.Op {
	case "zoom":
		x := *c.C03
		x.Boxes = mod(x.Boxes)
		x.H, x.V = boundTargets(x.Boxes, x.H, x.V, x.Spatial)
		d.C03 = &x
	case "merge":
		x := *c.C04
		x.Boxes = mod(x.Boxes)
		d.C04 = &x
	case "overlap":
		x := *c.C05
		x.A, x.B = mod(x.A), mod(x.B)
		d.C05 = &x
	case "neighbours":
		x := *c.C08
		x.Boxes = mod(x.Boxes)
		d.C08 = &x
	case "quadkeys", "altkeys", "bitkeys", "quadkeys-back":
		x := *c.C11
		x.Boxes = mod(x.Boxes)
		for i := range x.Boxes {
			if x.Boxes[i].H < 1 || x.Boxes[i].H > 31 || (c.Op == "altkeys" && x.Boxes[i].V > 25) {
				x.Boxes[i] = c.C11.Boxes[i]
			}
		}
		d.C11 = &x
	case "tiles":
		x := *c.C13
		x.Tiles = append([]Tile(nil), x.Tiles...)
		for i := range x.Tiles {
			switch variant {
			case 0:
				if x.Tiles[i].V < 35 {
					x.Tiles[i].V++
				}
			case 1:
				if x.Tiles[i].H < 35 {
					x.Tiles[i].H++
				}
			default:
				x.Tiles[i].X++
			}
		}
		if !c13Bounded(&x) {
			return nil
		}
		d.C13 = &x
	default:
		return nil
	}
	return &d
}

// c16CrossDisturb runs a few *other* operations on the (disturbed) boxes of the case: state shared between
// different operations (a common cache, a reused scratch buffer) would be exercised by them.
func c16CrossDisturb(d *CaseC16) {
	var bs []ref.Box
	switch {
	case d.C03 != nil:
		bs = d.C03.Boxes
	case d.C04 != nil:
		bs = d.C04.Boxes
	case d.C05 != nil:
		bs = append(append([]ref.Box{}, d.C05.A...), d.C05.B...)
	case d.C08 != nil:
		bs = d.C08.Boxes
	case d.C11 != nil:
		bs = d.C11.Boxes
	}
	if len(bs) == 0 {
		return
	}
	if len(bs) > 4 {
		bs = bs[:4]
	}
	ids := boxesExt(bs)
	b := bs[0]
	_, _ = integrate.ChangeExtendedSpatialIdsZoom(ids[:1], clamp64(b.H-1, 0, 35), clamp64(b.V+1, 0, 35))
	_, _ = integrate.MergeExtendedSpatialIds(ids[:1], clamp64(b.H-1, 0, 35), clamp64(b.V-1, 0, 35))
	_, _ = operated.GetNspatialIdsAroundVoxcels(ids[:1], 1, 1)
	_, _ = detector.CheckExtendedSpatialIdsArrayOverlap(ids, ids[:1])
	if b.H >= 1 && b.H <= 31 {
		_, _ = transform.ConvertExtendedSpatialIDsToQuadkeysAndVerticalIDs(ids[:1], b.H, b.V, 0, 0)
	}
	_, _ = shape.GetPointOnExtendedSpatialId(ids[0], 0)
}

func sameStrings(a, b []string) bool {
	if len(a) != len(b) {
		return false
	}
	for i := range a {
		if a[i] != b[i] {
			return false
		}
	}
	return true
}

func firstDiff(a, b []string) string {
	sa := map[string]struct{}{}
	for _, s := range a {
		sa[s] = struct{}{}
	}
	for _, s := range b {
		if _, ok := sa[s]; !ok {
			return s
		}
	}
	sb := map[string]struct{}{}
	for _, s := range b {
		sb[s] = struct{}{}
	}
	for _, s := range a {
		if _, ok := sb[s]; !ok {
			return s
		}
	}
	return ""
}

func checkC16(c *CaseC16, fl *Fails) {
	desc := jsonStr(c)
	base := c16Run(c, nil, nil, nil)
	baseSnap := append([]string(nil), base.raw...)
	defer func() {
		// the slice returned by the first call was kept: none of the later calls may have changed it
		if len(baseSnap) != len(base.raw) {
			return
		}
		for i := range baseSnap {
			if baseSnap[i] != base.raw[i] {
				fl.Add("result-retention", "%s: element %d of the slice returned by the first call changed from %q to %q during later calls", desc, i, baseSnap[i], base.raw[i])
				return
			}
		}
	}()
	if base.input != "" {
		fl.Add("input-modified", "%s: %s", desc, base.input)
	}
	if base.dup != "" {
		fl.Add("duplicate", "%s: result contains %s twice", desc, base.dup)
	}
	// repeated calls, with "disturbing" calls in between: the same operation on arguments that share numbers with
	// the case (same x, y, f at another zoom; neighbouring indices at the same zoom). A result must not depend on
	// what was called before (no hidden state such as a cache keyed by too few components).
	for i := 0; i < 3; i++ {
		if d := c16Disturb(c, i); d != nil {
			_ = c16Run(d, nil, nil, nil)
			c16CrossDisturb(d)
		}
		again := c16Run(c, nil, nil, nil)
		if again.err != base.err || !sameStrings(again.set, base.set) {
			fl.Add("nondeterministic-"+c.Op, "%s: two identical calls returned different sets (%d vs %d elements; e.g. %q)", desc, len(base.set), len(again.set), firstDiff(base.set, again.set))
			return
		}
	}
	if c.Op == "line" || c.Op == "corridor" {
		c16MutatePoints(c, fl, desc)
		return
	}
	// permuted input
	p := c16Run(c, c.Perm, c.Prm2, nil)
	if p.err != base.err || !sameStrings(p.set, base.set) {
		fl.Add("order-dependent-"+c.Op, "%s: permuting the input list changes the result (%d vs %d elements; e.g. %q)", desc, len(base.set), len(p.set), firstDiff(base.set, p.set))
	}
	// repeated entries
	d := c16Run(c, c.Perm, c.Prm2, c.Dup)
	if d.err != base.err || !sameStrings(d.set, base.set) {
		fl.Add("duplicate-dependent-"+c.Op, "%s: repeating entries %v of the input list changes the result (%d vs %d elements; e.g. %q)", desc, c.Dup, len(base.set), len(d.set), firstDiff(base.set, d.set))
	}
	if d.dup != "" {
		fl.Add("duplicate", "%s: with repeated input entries the result contains %s twice", desc, d.dup)
	}
	if d.input != "" || p.input != "" {
		fl.Add("input-modified", "%s: %s%s", desc, d.input, p.input)
	}
}

func init() {
	register(PropT[CaseC16]{
		ID:   "C16",
		Rule: "rapid: an operation (zoom change, merge, overlap, line, corridor, N-layer + 6/8/26 neighbourhoods, quadkey / altitude-key / bit-form conversion, quadkey back-conversion, tile conversion; both notations where they exist) with an argument list drawn from that operation's own generator (C03, C04, C05, C06, C14, C08, C11, C13), plus a permutation of every list argument (rapid.Permutation) and 0..3 entries repeated. Oracle: 4 identical calls return equal sets, with calls of the same operation on related arguments (same index numbers at a neighbouring zoom, neighbouring indices) in between: a result must not depend on the call history; the permuted and the duplicated input return the same set (overlap: the same boolean); de-duplicated results contain no element twice; a deep copy of every input slice / object taken before the call equals it afterwards; the returned slice shares no storage with the arguments (the caller overwrites them afterwards) and is not changed by later calls (result retention). Line and corridor take points: repeat-determinism, input preservation and independence from the identity / history of the *Point objects (objects moved in place with their setters between two queries must give the result of fresh objects). Non-trivial: list length>=3 with a repeated entry and a non-identity permutation; every line/corridor case.",
		Assumptions: []string{
			"map iteration order is re-randomised by the Go runtime per range statement, so repeated calls inside one process sample different orders; an order dependence with probability p per call is seen by 4 calls with probability 1-p^4-(1-p)^4 per case",
			"ConvertTileXYZsToSpatialIDs is documented as a plain expansion (not de-duplicated): compared as a set only",
		},
		Gen: genC16, Check: checkC16, Classify: classifyC16,
		Sweep: func(tier string, emit func(*CaseC16)) {
			// refine-only calls on nested voxels with 2^16 .. 2^18 results, permuted and with a duplicated entry
			for _, t := range [][2]int64{{15, 16}, {16, 16}} {
				bs := []ref.Box{{H: 10, X: 3, Y: 1020, V: 10, F: -2}, {H: 11, X: 7, Y: 2041, V: 11, F: -3}}
				emit(&CaseC16{Op: "zoom", C03: &CaseC03{Boxes: bs, H: t[0], V: t[1]}, Perm: []int{1, 0}, Dup: []int{1}})
			}
			if tier == "quick" {
				return
			}
			// results beyond 2^20 IDs (an implementation may switch strategy with size): partially overlapping
			// (crossing-zoom), nested and repeated inputs must still give a duplicate-free, order-blind result
			big := [][]ref.Box{
				{{H: 0, X: 0, Y: 0, V: 3, F: 0}, {H: 3, X: 0, Y: 0, V: 0, F: 0}},
				{{H: 3, X: 7, Y: 7, V: 0, F: -1}, {H: 0, X: 0, Y: 0, V: 3, F: -8}, {H: 1, X: 1, Y: 1, V: 1, F: -2}},
			}
			for _, bs := range big {
				perm := make([]int, len(bs))
				for i := range perm {
					perm[i] = len(bs) - 1 - i
				}
				emit(&CaseC16{Op: "zoom", C03: &CaseC03{Boxes: bs, H: 10, V: 3}, Perm: perm, Dup: []int{0}})
			}
		},
		SweepScopes: func(tier string) []string {
			small := "2 refine-only zoom changes of a nested pair with 2^16 / 2^18 output IDs, permuted and with a duplicated entry"
			if tier == "quick" {
				return []string{small}
			}
			return []string{small, "2 zoom changes with more than 2^20 output IDs (crossing-zoom / nested inputs), repeated, permuted and with a duplicated entry"}
		},
		ReplayRuns: 16,
	})
}
