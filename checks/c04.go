package checks

import (
	"github.com/trajectoryjp/spatial_id_go/v4/integrate"
	"math"
	"math/big"
	"pgregory.net/rapid"

	"verif/ref"
)

type CaseC04 struct {
	Boxes   []ref.Box
	H, V    int64
	Spatial bool
	Spell   int64 `json:",omitempty"`
}

// cover returns boxes that tile b exactly, splitting at most dh horizontal and dv vertical levels.
func cover(t *rapid.T, b ref.Box, dh, dv int64, both bool) []ref.Box {
	kind := rapid.IntRange(0, 3).Draw(t, "split")
	canH, canV := dh > 0 && b.H < 35, dv > 0 && b.V < 35
	if kind == 0 || (!canH && !canV) || (both && !(canH && canV)) {
		return []ref.Box{b}
	}
	var kids []ref.Box
	splitH := canH && (both || kind == 1 || kind == 3 || !canV)
	splitV := canV && (both || kind == 2 || kind == 3 || !canH)
	nh, nv := int64(1), int64(1)
	ddh, ddv := dh, dv
	if splitH {
		nh = 2
		ddh--
	}
	if splitV {
		nv = 2
		ddv--
	}
	for x := int64(0); x < nh; x++ {
		for y := int64(0); y < nh; y++ {
			for f := int64(0); f < nv; f++ {
				k := b
				if splitH {
					k.H, k.X, k.Y = b.H+1, b.X*2+x, b.Y*2+y
				}
				if splitV {
					k.V, k.F = b.V+1, b.F*2+f
				}
				kids = append(kids, cover(t, k, ddh, ddv, both)...)
			}
		}
	}
	return kids
}

func genC04(t *rapid.T) *CaseC04 {
	c := &CaseC04{}
	c.Spatial = rapid.IntRange(0, 3).Draw(t, "spatial") == 0
	c.H = genZoom(t, "H", 0, 33)
	c.V = genZoom(t, "V", 0, 32)
	if c.Spatial {
		c.V = c.H
	}
	// target voxels: a seed, often at ground level, plus relatives
	seed := genBoxAt(t, "seed", c.H, c.V)
	if rapid.Bool().Draw(t, "ground") {
		seed.F = rapid.SampledFrom([]int64{-1, 0}).Draw(t, "gf")
	}
	targets := []ref.Box{seed}
	nt := rapid.IntRange(1, 3).Draw(t, "ntargets")
	for len(targets) < nt {
		d := [][3]int64{{1, 0, 0}, {0, 1, 0}, {0, 0, 1}, {0, 0, -1}, {-1, 0, 0}}[rapid.IntRange(0, 4).Draw(t, "tdir")]
		n := ref.Shift(seed, d[0], d[1], d[2])
		if n.Valid() {
			targets = append(targets, n)
		} else {
			targets = append(targets, seed)
		}
	}
	maxDH, maxDV := int64(2), int64(3)
	if c.Spatial {
		maxDV = 2
	}
	if rapid.IntRange(0, 11).Draw(t, "deep") == 0 {
		// a target far above the inputs: one to three voxels of ONE fine zoom pair (no spread among the inputs, so the
		// call is cheap), 2*dh+dv up to 105 levels below the target voxel - the group is hopelessly incomplete
		if rapid.Bool().Draw(t, "deepLowTarget") {
			c.H = rapid.Int64Range(0, 6).Draw(t, "dH")
			c.V = rapid.Int64Range(0, 8).Draw(t, "dV")
			if c.Spatial {
				c.V = c.H
			}
			seed = genBoxAt(t, "dseed", c.H, c.V)
		}
		dh := rapid.Int64Range(0, 35-c.H).Draw(t, "ddh")
		dv := rapid.Int64Range(0, 35-c.V).Draw(t, "ddv")
		if rapid.Bool().Draw(t, "deepMax") {
			dh, dv = 35-c.H-rapid.Int64Range(0, min64(3, 35-c.H)).Draw(t, "mh"), 35-c.V-rapid.Int64Range(0, min64(3, 35-c.V)).Draw(t, "mv")
		}
		if c.Spatial {
			dv = dh
		}
		for i := rapid.IntRange(1, 3).Draw(t, "nDeep"); i > 0; i-- {
			c.Boxes = append(c.Boxes, ref.Box{H: seed.H + dh, X: seed.X<<uint(dh) + genIndex(t, "dx", 0, (int64(1)<<uint(dh))-1), Y: seed.Y<<uint(dh) + genIndex(t, "dy", 0, (int64(1)<<uint(dh))-1),
				V: seed.V + dv, F: seed.F<<uint(dv) + genIndex(t, "df", 0, (int64(1)<<uint(dv))-1)})
		}
		return c
	}
	if !c.Spatial && c.H <= 30 && c.V <= 30 && rapid.IntRange(0, 14).Draw(t, "wide") == 0 {
		// wide zoom spread (up to 5 levels per axis) with a few large, partially overlapping pieces of one target
		// voxel (columns, slabs, quarters) and one small deep voxel; mostly incompletely filled
		tg := targets[0]
		for i := rapid.IntRange(2, 6).Draw(t, "nPieces"); i > 0; i-- {
			dh := rapid.Int64Range(0, 2).Draw(t, "pdh")
			dv := rapid.Int64Range(0, 2).Draw(t, "pdv")
			c.Boxes = append(c.Boxes, ref.Box{H: tg.H + dh, X: tg.X<<uint(dh) + rapid.Int64Range(0, (1<<uint(dh))-1).Draw(t, "px"), Y: tg.Y<<uint(dh) + rapid.Int64Range(0, (1<<uint(dh))-1).Draw(t, "py"),
				V: tg.V + dv, F: tg.F<<uint(dv) + rapid.Int64Range(0, (1<<uint(dv))-1).Draw(t, "pf")})
		}
		dh := rapid.Int64Range(3, 5).Draw(t, "deepH")
		dv := rapid.Int64Range(3, 5).Draw(t, "deepV")
		c.Boxes = append(c.Boxes, ref.Box{H: tg.H + dh, X: tg.X<<uint(dh) + rapid.Int64Range(0, (1<<uint(dh))-1).Draw(t, "qx"), Y: tg.Y<<uint(dh) + rapid.Int64Range(0, (1<<uint(dh))-1).Draw(t, "qy"),
			V: tg.V + dv, F: tg.F<<uint(dv) + rapid.Int64Range(0, (1<<uint(dv))-1).Draw(t, "qf")})
		if rapid.Bool().Draw(t, "wperm") {
			c.Boxes = rapid.Permutation(c.Boxes).Draw(t, "wp")
		}
		c.Spell = genSpell(t)
		return c
	}
	for _, tg := range targets {
		ms := cover(t, tg, maxDH, maxDV, c.Spatial)
		switch rapid.IntRange(0, 4).Draw(t, "hole") {
		case 4: // thicken: replace one to three members by a parent on ONE axis (still inside the target voxel): the cover
			// stays complete but its members overlap, and a single member may be the only one at the finest zoom of an axis
			for i := rapid.IntRange(1, 3).Draw(t, "nThick"); i > 0 && len(ms) > 1; i-- {
				j := rapid.IntRange(0, len(ms)-1).Draw(t, "thickIdx")
				m := ms[j]
				switch {
				case c.Spatial: // single-zoom IDs: the parent on both axes
					if m.H > tg.H && m.V > tg.V {
						m.H, m.X, m.Y, m.V, m.F = m.H-1, m.X>>1, m.Y>>1, m.V-1, m.F>>1
					}
				case rapid.Bool().Draw(t, "thickV"):
					if m.V > tg.V {
						m.V, m.F = m.V-1, m.F>>1
					}
				default:
					if m.H > tg.H {
						m.H, m.X, m.Y = m.H-1, m.X>>1, m.Y>>1
					}
				}
				ms[j] = m
			}
		case 0: // remove one member: the group misses (at least) one cell
			if len(ms) > 1 {
				i := rapid.IntRange(0, len(ms)-1).Draw(t, "holeIdx")
				ms = append(ms[:i:i], ms[i+1:]...)
			}
		case 1: // add an overlapping descendant of a member
			if len(ms) > 0 {
				m := ms[rapid.IntRange(0, len(ms)-1).Draw(t, "ovIdx")]
				if m.H-c.H < maxDH && m.V-c.V < maxDV && m.H < 35 && m.V < 35 {
					k := m
					if c.Spatial || rapid.Bool().Draw(t, "ovH") {
						k.H, k.X, k.Y = m.H+1, m.X*2+rapid.Int64Range(0, 1).Draw(t, "ox"), m.Y*2+rapid.Int64Range(0, 1).Draw(t, "oy")
						if c.Spatial {
							k.V, k.F = m.V+1, m.F*2+rapid.Int64Range(0, 1).Draw(t, "of")
						}
					} else {
						k.V, k.F = m.V+1, m.F*2+rapid.Int64Range(0, 1).Draw(t, "of")
					}
					ms = append(ms, k)
				}
			}
		}
		c.Boxes = append(c.Boxes, ms...)
	}
	// ineligible boxes: coarser than the target on at least one axis (kept within the zoom spread)
	if !c.Spatial {
		for i := rapid.IntRange(0, 2).Draw(t, "nInel"); i > 0; i-- {
			b := seed
			switch rapid.IntRange(0, 2).Draw(t, "inelKind") {
			case 0:
				if b.H > 0 {
					d := rapid.Int64Range(1, min64(3, b.H)).Draw(t, "up")
					b.H, b.X, b.Y = b.H-d, ref.Ancestor(b.X, d), ref.Ancestor(b.Y, d)
					dv := rapid.Int64Range(0, min64(maxDV, 35-b.V)).Draw(t, "fineV")
					b.V, b.F = b.V+dv, b.F<<uint(dv)
				}
			case 1:
				if b.V > 0 {
					d := rapid.Int64Range(1, min64(3, b.V)).Draw(t, "up")
					b.V, b.F = b.V-d, ref.Ancestor(b.F, d)
					dh := rapid.Int64Range(0, min64(maxDH, 35-b.H)).Draw(t, "fineH")
					b.H, b.X, b.Y = b.H+dh, b.X<<uint(dh), b.Y<<uint(dh)
				}
			default:
				if b.H > 0 && b.V > 0 {
					b.H, b.X, b.Y = b.H-1, b.X>>1, b.Y>>1
					b.V, b.F = b.V-1, b.F>>1
				}
			}
			c.Boxes = append(c.Boxes, b)
		}
	} else if c.H > 0 && rapid.Bool().Draw(t, "coarser") {
		c.Boxes = append(c.Boxes, ref.Box{H: c.H - 1, X: seed.X >> 1, Y: seed.Y >> 1, V: c.V - 1, F: seed.F >> 1})
	}
	// duplicates
	for i := rapid.IntRange(0, 2).Draw(t, "nDup"); i > 0 && len(c.Boxes) > 0; i-- {
		c.Boxes = append(c.Boxes, c.Boxes[rapid.IntRange(0, len(c.Boxes)-1).Draw(t, "dupIdx")])
	}
	if len(c.Boxes) > 1 {
		c.Boxes = rapid.Permutation(c.Boxes).Draw(t, "perm")
	}
	c.Spell = genSpell(t)
	return c
}

type c04Group struct {
	cells, full int64
	neg         bool
}

func c04Groups(c *CaseC04) map[ref.Box]*c04Group {
	groups := map[ref.Box][]ref.Box{}
	for _, b := range c.Boxes {
		if b.H >= c.H && b.V >= c.V {
			a := ref.Box{H: c.H, X: ref.Ancestor(b.X, b.H-c.H), Y: ref.Ancestor(b.Y, b.H-c.H), V: c.V, F: ref.Ancestor(b.F, b.V-c.V)}
			groups[a] = append(groups[a], b)
		}
	}
	out := map[ref.Box]*c04Group{}
	for a, ms := range groups {
		H, V := ref.MaxZooms(ms)
		full := int64(math.MaxInt64)
		if n := ref.ZoomCount(a, H, V); n.IsInt64() {
			full = n.Int64()
		}
		g := &c04Group{cells: int64(len(ref.Region(ms, H, V))), full: full}
		for _, m := range ms {
			if m.F < 0 {
				g.neg = true
			}
		}
		out[a] = g
	}
	return out
}

func classifyC04(c *CaseC04) (bool, []string) {
	var cl []string
	nt := false
	for _, g := range c04Groups(c) {
		switch {
		case g.cells == g.full && g.full > 1:
			nt = true
			cl = append(cl, "dense-group")
		case g.cells == g.full:
			cl = append(cl, "single-voxel-group")
		case g.cells == g.full-1:
			nt = true
			cl = append(cl, "group-missing-one-cell")
		default:
			cl = append(cl, "sparse-group")
		}
		if g.neg {
			nt = true
			cl = append(cl, "group-with-f<0")
		}
	}
	for _, b := range c.Boxes {
		if !(b.H >= c.H && b.V >= c.V) {
			cl = append(cl, "ineligible-present")
		}
	}
	if _, dup := hasDup(boxesExt(c.Boxes)); dup {
		cl = append(cl, "duplicate-input")
	}
	if c.Spatial {
		cl = append(cl, "spatial-api")
	}
	mh, mv := ref.MaxZooms(c.Boxes)
	if mh-c.H > 2 || mv-c.V > 3 {
		cl = append(cl, "wide-zoom-spread")
	}
	return nt, uniq(cl)
}

func c04Kind(c *CaseC04, base string) string {
	for _, b := range c.Boxes {
		if b.F < 0 && b.V > c.V && b.H >= c.H {
			return base + "-negative-vertical"
		}
	}
	return base
}

func checkC04(c *CaseC04, fl *Fails) {
	want := ref.Merge(c.Boxes, c.H, c.V)
	var out []string
	var err error
	var outBoxes []ref.Box
	if c.Spatial {
		ids := spelledSpatial(c.Boxes, c.Spell)
		out, err = integrate.MergeSpatialIds(ids, c.H)
		if err != nil {
			if c.Spell != 0 {
				// a library that rejects a non-canonical spelling ("+1", "007", "-0") with an error does not break the
				// property (it quantifies over valid IDs; only the canonical decimal spelling is certainly one)
				Count("spelled_input_rejected", 1)
				return
			}
			fl.Add("error", "MergeSpatialIds: %v", err)
			return
		}
		ext := make([]string, 0, len(out))
		for _, s := range out {
			b, perr := ref.ParseSpatial(s)
			if perr != nil {
				fl.Add("format", "%v", perr)
				return
			}
			outBoxes = append(outBoxes, b)
			ext = append(ext, b.Ext())
		}
		if d, ok := hasDup(out); ok {
			fl.Add("duplicate", "MergeSpatialIds returns %s twice", d)
		}
		out = ext
	} else {
		out, err = integrate.MergeExtendedSpatialIds(spelledExt(c.Boxes, c.Spell), c.H, c.V)
		if err != nil {
			if c.Spell != 0 {
				// a library that rejects a non-canonical spelling ("+1", "007", "-0") with an error does not break the
				// property (it quantifies over valid IDs; only the canonical decimal spelling is certainly one)
				Count("spelled_input_rejected", 1)
				return
			}
			fl.Add("error", "MergeExtendedSpatialIds: %v", err)
			return
		}
		for _, s := range out {
			b, perr := ref.ParseExt(s)
			if perr != nil {
				fl.Add("format", "%v", perr)
				return
			}
			outBoxes = append(outBoxes, b)
		}
		if d, ok := hasDup(out); ok {
			fl.Add("duplicate", "MergeExtendedSpatialIds returns %s twice", d)
		}
	}
	in := trunc(boxesExt(c.Boxes), 12)
	// (1) expected set
	if miss, extra := diffSets(out, extSet(want)); len(miss)+len(extra) > 0 {
		fl.Add(c04Kind(c, "set"), "merge(%v -> %d/%d): missing %v, unexpected %v", in, c.H, c.V, miss, extra)
	}
	// (2) region equality, independent of the expected set
	// (skipped when a wrong result would make the region enumeration explode: the set oracle has spoken then)
	if c04RegionCells(outBoxes, c.Boxes) <= 1<<22 && !ref.SameRegion(outBoxes, c.Boxes) {
		fl.Add(c04Kind(c, "region"), "merge(%v -> %d/%d) = %v covers a different region than the input", in, c.H, c.V, trunc(out, 12))
	}
	// (4) idempotence
	var again []string
	if c.Spatial {
		sp := make([]string, len(outBoxes))
		for i, b := range outBoxes {
			sp[i] = b.Spatial()
		}
		a2, err := integrate.MergeSpatialIds(sp, c.H)
		if err != nil {
			fl.Add("error", "second MergeSpatialIds: %v", err)
			return
		}
		for _, s := range a2 {
			b, _ := ref.ParseSpatial(s)
			again = append(again, b.Ext())
		}
	} else {
		again, err = integrate.MergeExtendedSpatialIds(out, c.H, c.V)
		if err != nil {
			fl.Add("error", "second MergeExtendedSpatialIds: %v", err)
			return
		}
	}
	ws := map[string]struct{}{}
	for _, s := range out {
		ws[s] = struct{}{}
	}
	if miss, extra := diffSets(again, ws); len(miss)+len(extra) > 0 || len(again) != len(ws) {
		fl.Add(c04Kind(c, "idempotence"), "merging the result %v again changes it: missing %v, new %v", trunc(out, 12), miss, extra)
	}
}

// crossTiling tiles b exactly with pieces none of which is the finest on both axes: one vertical half as four quadrants
// (h+1, v+1), the other half as two slabs (h, v+2) - lowerQuads chooses which half gets the quadrants.
func crossTiling(b ref.Box, lowerQuads bool) []ref.Box {
	var out []ref.Box
	q, s := b.F*2, b.F*2+1
	if !lowerQuads {
		q, s = b.F*2+1, b.F*2
	}
	for x := int64(0); x < 2; x++ {
		for y := int64(0); y < 2; y++ {
			out = append(out, ref.Box{H: b.H + 1, X: b.X*2 + x, Y: b.Y*2 + y, V: b.V + 1, F: q})
		}
	}
	out = append(out, ref.Box{H: b.H, X: b.X, Y: b.Y, V: b.V + 2, F: s * 2}, ref.Box{H: b.H, X: b.X, Y: b.Y, V: b.V + 2, F: s*2 + 1})
	return out
}

// c04RegionCells bounds the number of unit cells SameRegion would enumerate for the two lists.
func c04RegionCells(a, b []ref.Box) int64 {
	H1, V1 := ref.MaxZooms(a)
	H2, V2 := ref.MaxZooms(b)
	H, V := max64(H1, H2), max64(V1, V2)
	total := new(big.Int)
	for _, l := range [][]ref.Box{a, b} {
		for _, x := range l {
			total.Add(total, ref.ZoomCount(x, H, V))
		}
	}
	if !total.IsInt64() {
		return math.MaxInt64
	}
	return total.Int64()
}

func sweepC04(tier string, emit func(*CaseC04)) {
	// exact tilings in which no member is the finest on both axes (quadrants in one half, slabs in the other), in
	// several orders, above and below ground
	for _, b := range []ref.Box{{H: 3, X: 2, Y: 5, V: 4, F: -3}, {H: 3, X: 2, Y: 5, V: 4, F: 2}, {H: 0, X: 0, Y: 0, V: 0, F: -1}, {H: 20, X: 931277, Y: 412899, V: 12, F: 0}, {H: 30, X: 5, Y: 7, V: 33, F: -1}} {
		for _, lower := range []bool{true, false} {
			tl := crossTiling(b, lower)
			emit(&CaseC04{Boxes: tl, H: b.H, V: b.V})
			rev := make([]ref.Box, len(tl))
			for i := range tl {
				rev[len(tl)-1-i] = tl[i]
			}
			emit(&CaseC04{Boxes: rev, H: b.H, V: b.V})
			emit(&CaseC04{Boxes: []ref.Box{tl[4], tl[0], tl[5], tl[1], tl[2], tl[3]}, H: b.H, V: b.V})
		}
	}
	// targets far above a single fine input: every 2*dh+dv from 20 to 105 (word-size boundaries of a cell count)
	for dh := int64(0); dh <= 35; dh++ {
		for dv := int64(0); dv <= 35; dv++ {
			if s := 2*dh + dv; s < 20 || (tier == "quick" && s%3 != 0 && (s < 61 || s > 66) && (s < 30 || s > 34)) {
				continue
			}
			b := ref.Box{H: dh, X: (int64(1) << uint(dh)) / 3, Y: (int64(1) << uint(dh)) - 1, V: dv, F: -((int64(1) << uint(dv)) / 5) - 1}
			if dv == 0 {
				b.F = -1
			}
			emit(&CaseC04{Boxes: []ref.Box{b}, H: 0, V: 0})
			if dh == dv {
				emit(&CaseC04{Boxes: []ref.Box{b}, H: 0, V: 0, Spatial: true})
			}
		}
	}
	for i, n := range roundSizes {
		if (tier == "quick" && i%3 != 1) || n > 2048 {
			continue
		}
		emit(allProcs(&CaseC04{Boxes: rowBoxes(n, 6, 4), H: 5, V: 3})) // complete 2x2 blocks merge horizontally only where the vertical pair exists
		emit(&CaseC04{Boxes: rowBoxes(n, 6, 4), H: 6, V: 4})
	}
	// all subsets of the 8 children of voxel 0/0/0/0/f, f in {-1, 0}
	for _, f := range []int64{-1, 0} {
		var kids []ref.Box
		for x := int64(0); x < 2; x++ {
			for y := int64(0); y < 2; y++ {
				for k := int64(0); k < 2; k++ {
					kids = append(kids, ref.Box{H: 1, X: x, Y: y, V: 1, F: 2*f + k})
				}
			}
		}
		for mask := 0; mask < 256; mask++ {
			c := &CaseC04{H: 0, V: 0}
			for i, k := range kids {
				if mask>>uint(i)&1 == 1 {
					c.Boxes = append(c.Boxes, k)
				}
			}
			emit(c)
			if mask%4 == 3 || tier != "quick" {
				cs := *c
				cs.Spatial = true
				emit(&cs)
			}
		}
	}
	// all subsets of the 8 vertical cells -4..3 at v=2 around ground level, target v=1 and v=0
	for mask := 0; mask < 256; mask++ {
		for _, V := range []int64{0, 1} {
			c := &CaseC04{H: 1, V: V}
			for i := 0; i < 8; i++ {
				if mask>>uint(i)&1 == 1 {
					c.Boxes = append(c.Boxes, ref.Box{H: 1, X: 1, Y: 0, V: 2, F: int64(i) - 4})
				}
			}
			emit(c)
		}
	}
	// mixed depth: vertical cells at v=1 and v=2 below ground
	for mask := 0; mask < 64; mask++ {
		c := &CaseC04{H: 2, V: 0}
		cells := []ref.Box{{H: 2, X: 3, Y: 1, V: 1, F: -2}, {H: 2, X: 3, Y: 1, V: 1, F: -1}, {H: 2, X: 3, Y: 1, V: 2, F: -4}, {H: 2, X: 3, Y: 1, V: 2, F: -3}, {H: 2, X: 3, Y: 1, V: 2, F: -2}, {H: 2, X: 3, Y: 1, V: 2, F: -1}}
		for i, k := range cells {
			if mask>>uint(i)&1 == 1 {
				c.Boxes = append(c.Boxes, k)
			}
		}
		emit(c)
	}
}

func init() {
	register(PropT[CaseC04]{
		ID:   "C04",
		Rule: "rapid: target (H,V) and 1..3 target-grid voxels (often at ground level f in {-1,0}), each tiled recursively by descendants (spread <= 2 horizontal / 3 vertical levels), then optionally one member removed or an overlapping descendant added; plus ineligible (coarser-on-one-axis) boxes, duplicates, shuffled; extended API or single-zoom API. Sweep: all subsets of the 8 children of 0/0/0/0/{-1,0}; all subsets of the vertical cells -4..3 at v=2; mixed-depth subsets below ground. Non-trivial: some group is dense (and has > 1 cell) or misses exactly one cell, or a group contains f<0.",
		Assumptions: []string{
			"oracle 1: reference merge (eligibility, floor ancestors, density by unit-cell count) compared as exact set",
			"oracle 2: region equality of output and input by unit-cell enumeration at the finest zooms present (independent of oracle 1)",
			"zoom spread bounded to 2 (horizontal) / 3 (vertical) levels: the function documents unbounded memory use beyond a few levels",
		},
		Gen: genC04, Check: checkC04, Classify: classifyC04, Sweep: sweepC04,
		SweepScopes: func(tier string) []string {
			return []string{"all 256 subsets of the 8 children of 0/0/0/0/-1 and of 0/0/0/0/0 merged to (0,0) (exhaustive)", "all 256 subsets of vertical cells -4..3 at v=2 merged to v=1 and v=0 (exhaustive)", "all 64 subsets of a mixed v=1/v=2 column below ground (exhaustive)"}
		},
	})
}
