package checks

import (
	"sort"

	"github.com/trajectoryjp/spatial_id_go/v4/operated"
	"pgregory.net/rapid"

	"verif/ref"
)

type CaseC08 struct {
	Boxes  []ref.Box // first box is also used for the single-voxel queries
	HL, VL int64
	Spell  int64 `json:",omitempty"`
}

func genC08(t *rapid.T) *CaseC08 {
	c := &CaseC08{}
	h := genZoom(t, "h", 0, 35)
	if rapid.IntRange(0, 2).Draw(t, "small") == 0 {
		h = rapid.Int64Range(0, 3).Draw(t, "hsmall")
	}
	v := genZoom(t, "v", 0, 35)
	b := genBoxAt(t, "b", h, v)
	c.Boxes = []ref.Box{b}
	n := rapid.IntRange(1, 5).Draw(t, "n")
	if rapid.IntRange(0, 59).Draw(t, "long") == 0 {
		n = rapid.SampledFrom([]int{33, 64, 65, 130}).Draw(t, "nLong")
	}
	for len(c.Boxes) < n {
		base := c.Boxes[rapid.IntRange(0, len(c.Boxes)-1).Draw(t, "base")]
		switch rapid.IntRange(0, 5).Draw(t, "rel") {
		case 5:
			// the same zooms, 2^k +- j cells away along one axis
			c.Boxes = append(c.Boxes, genFar(t, "far", base))
		case 4:
			// the same index numbers at another vertical / horizontal zoom (ground-level voxels of two resolutions)
			nb := base
			if rapid.Bool().Draw(t, "mixV") {
				nb.V = clamp64(base.V+rapid.Int64Range(-2, 2).Draw(t, "dvz"), 0, 35)
			} else {
				nb.H = clamp64(base.H+rapid.Int64Range(-1, 1).Draw(t, "dhz"), 0, 35)
			}
			if nb.Valid() {
				c.Boxes = append(c.Boxes, nb)
			} else {
				c.Boxes = append(c.Boxes, base)
			}
		case 0:
			c.Boxes = append(c.Boxes, base)
		case 1:
			c.Boxes = append(c.Boxes, genBoxAt(t, "other", h, v))
		default:
			c.Boxes = append(c.Boxes, ref.Shift(base, rapid.Int64Range(-2, 2).Draw(t, "sx"), rapid.Int64Range(-2, 2).Draw(t, "sy"), rapid.Int64Range(-2, 2).Draw(t, "sv")))
		}
	}
	c.HL = rapid.Int64Range(0, 4).Draw(t, "hl")
	c.VL = rapid.Int64Range(0, 4).Draw(t, "vl")
	if n > 5 {
		c.HL, c.VL = min64(c.HL, 1), min64(c.VL, 1)
	}
	c.Spell = genSpell(t)
	return c
}

func classifyC08(c *CaseC08) (bool, []string) {
	var cl []string
	nt := false
	b := c.Boxes[0]
	n := int64(1) << uint(b.H)
	if b.X == 0 || b.Y == 0 || b.X == n-1 || b.Y == n-1 {
		nt = true
		cl = append(cl, "on-grid-edge")
	}
	if b.H <= 2 {
		nt = true
		cl = append(cl, "h<=2")
	}
	if len(c.Boxes) >= 2 {
		nt = true
		cl = append(cl, "list>=2")
	}
	if len(c.Boxes) >= 33 {
		cl = append(cl, "long-list")
	}
	for _, b := range c.Boxes[1:] {
		if b.H != c.Boxes[0].H || b.V != c.Boxes[0].V {
			cl = append(cl, "mixed-zooms-in-list")
			break
		}
	}
	if 2*c.HL+1 > n {
		cl = append(cl, "stencil-wider-than-grid")
	}
	if c.HL == 0 && c.VL == 0 {
		cl = append(cl, "zero-layers")
	}
	return nt, cl
}

func multisetEq(got []string, want []string) bool {
	if len(got) != len(want) {
		return false
	}
	a, b := sortedCopy(got), sortedCopy(want)
	for i := range a {
		if a[i] != b[i] {
			return false
		}
	}
	return true
}

func stencil6() [][3]int64 {
	return [][3]int64{{1, 0, 0}, {-1, 0, 0}, {0, 1, 0}, {0, -1, 0}, {0, 0, 1}, {0, 0, -1}}
}

func stencil8() [][3]int64 {
	var s [][3]int64
	for dx := int64(-1); dx <= 1; dx++ {
		for dy := int64(-1); dy <= 1; dy++ {
			if dx != 0 || dy != 0 {
				s = append(s, [3]int64{dx, dy, 0})
			}
		}
	}
	return s
}

func stencil26() [][3]int64 {
	var s [][3]int64
	for dx := int64(-1); dx <= 1; dx++ {
		for dy := int64(-1); dy <= 1; dy++ {
			for dv := int64(-1); dv <= 1; dv++ {
				if dx != 0 || dy != 0 || dv != 0 {
					s = append(s, [3]int64{dx, dy, dv})
				}
			}
		}
	}
	return s
}

func applyStencil(b ref.Box, s [][3]int64) []string {
	out := make([]string, len(s))
	for i, d := range s {
		out[i] = ref.Shift(b, d[0], d[1], d[2]).Ext()
	}
	return out
}

func checkC08(c *CaseC08, fl *Fails) {
	b := c.Boxes[0]
	id := b.Ext()
	n := int64(1) << uint(b.H)
	type q struct {
		name string
		got  []string
		st   [][3]int64
	}
	qs := []q{
		{"Get6spatialIdsAdjacentToFaces", operated.Get6spatialIdsAdjacentToFaces(id), stencil6()},
		{"Get8spatialIdsAroundHorizontal", operated.Get8spatialIdsAroundHorizontal(id), stencil8()},
		{"Get26spatialIdsAroundVoxel", operated.Get26spatialIdsAroundVoxel(id), stencil26()},
	}
	for _, x := range qs {
		want := applyStencil(b, x.st)
		if !multisetEq(x.got, want) {
			sort.Strings(want)
			fl.Add("stencil", "%s(%s) = %v, expected the shifts %v", x.name, id, sortedCopy(x.got), want)
			continue
		}
		if n >= 3 {
			if _, dup := hasDup(x.got); dup || len(x.got) != len(x.st) {
				fl.Add("count", "%s(%s) has %d ids (dup=%v), expected %d distinct", x.name, id, len(x.got), dup, len(x.st))
			}
			for _, g := range x.got {
				if g == id {
					fl.Add("self", "%s(%s) contains the input itself", x.name, id)
				}
			}
		}
	}
	// symmetry of the neighbour relation (26-neighbourhood): a in N(b) for every b in N(a)
	for i, nb := range qs[2].got {
		if i%5 != 0 {
			continue
		}
		back := operated.Get26spatialIdsAroundVoxel(nb)
		found := false
		for _, s := range back {
			if s == id {
				found = true
			}
		}
		if !found {
			fl.Add("symmetry", "%s is a 26-neighbour of %s but not vice versa", nb, id)
		}
	}
	// N-layer query on the list
	ids := spelledExt(c.Boxes, c.Spell)
	got, err := operated.GetNspatialIdsAroundVoxcels(ids, c.HL, c.VL)
	if err != nil {
		if c.Spell != 0 {
			// a library that rejects a non-canonical spelling ("+1", "007", "-0") with an error does not break the
			// property (it quantifies over valid IDs; only the canonical decimal spelling is certainly one)
			Count("spelled_input_rejected", 1)
			return
		}
		fl.Add("error", "GetNspatialIdsAroundVoxcels(%v,%d,%d): %v", ids, c.HL, c.VL, err)
		return
	}
	want := map[string]struct{}{}
	for _, bx := range c.Boxes {
		for dx := -c.HL; dx <= c.HL; dx++ {
			for dy := -c.HL; dy <= c.HL; dy++ {
				for dv := -c.VL; dv <= c.VL; dv++ {
					if dx == 0 && dy == 0 && dv == 0 {
						continue
					}
					want[ref.Shift(bx, dx, dy, dv).Ext()] = struct{}{}
				}
			}
		}
	}
	if d, dup := hasDup(got); dup {
		fl.Add("duplicate", "GetNspatialIdsAroundVoxcels(%v,%d,%d) returns %s twice", ids, c.HL, c.VL, d)
	}
	if miss, extra := diffSets(got, want); len(miss)+len(extra) > 0 {
		fl.Add("nlayer-set", "GetNspatialIdsAroundVoxcels(%v,%d,%d): missing %v, unexpected %v (got %d, want %d)", ids, c.HL, c.VL, miss, extra, len(got), len(want))
	}
	if len(c.Boxes) == 1 && 2*c.HL+1 <= n {
		exp := (2*c.HL+1)*(2*c.HL+1)*(2*c.VL+1) - 1
		if int64(len(got)) != exp {
			fl.Add("count", "GetNspatialIdsAroundVoxcels([%s],%d,%d) has %d ids, expected %d", id, c.HL, c.VL, len(got), exp)
		}
		for _, g := range got {
			if g == id {
				fl.Add("self", "N-layer neighbourhood of %s contains the voxel itself", id)
			}
		}
	}
}

func sweepC08(tier string, emit func(*CaseC08)) {
	// two voxels 2^k - j cells apart along each axis (j = 0 .. 2*layers+1), k at the widths of packed coordinate fields
	for _, k := range []uint{8, 10, 16, 20, 21, 24, 31, 32} {
		for _, layers := range []int64{1, 4} {
			if tier == "quick" && layers == 4 && k != 21 && k != 16 {
				continue
			}
			for j := int64(0); j <= 2*layers+1; j++ {
				d := (int64(1) << k) - j
				base := ref.Box{H: 34, X: 1 << 20, Y: 3 << 19, V: 34, F: -5}
				for axis := 0; axis < 3; axis++ {
					o := base
					switch axis {
					case 0:
						o.X += d
					case 1:
						o.Y += d
					default:
						o.F += d
					}
					if o.Valid() {
						emit(&CaseC08{Boxes: []ref.Box{base, o}, HL: layers, VL: layers})
					}
				}
			}
		}
	}
	// two voxels with the same small index numbers at every pair of zoom pairs (h, v) / (h', v') with |h - h'| <= 1:
	// any key that packs the zooms and the numbers of a voxel into one value must keep them apart
	for _, h := range []int64{20, 34} {
		for dh := int64(-1); dh <= 1; dh++ {
			if tier == "quick" && h == 34 && dh != 1 {
				continue
			}
			for v := int64(0); v <= 35; v++ {
				for v2 := int64(0); v2 <= 35; v2++ {
					if dh == 0 && v == v2 {
						continue
					}
					emit(&CaseC08{Boxes: []ref.Box{{H: h, X: 100, Y: 200, V: v, F: 0}, {H: h + dh, X: 100, Y: 200, V: v2, F: 0}}, HL: 1, VL: 1})
				}
			}
		}
	}
	for i, n := range roundSizes {
		if (tier == "quick" && i%3 != 1) || n > 2048 {
			continue
		}
		emit(&CaseC08{Boxes: rowBoxes(n, 6, 4), HL: 0, VL: 1})
		emit(allProcs(&CaseC08{Boxes: rowBoxes(n, 6, 4), HL: 1, VL: 0}))
	}
	maxL := int64(2)
	for h := int64(0); h <= 2; h++ {
		n := int64(1) << uint(h)
		for x := int64(0); x < n; x++ {
			for y := int64(0); y < n; y++ {
				for _, f := range []int64{-2, -1, 0} {
					for hl := int64(0); hl <= maxL; hl++ {
						for vl := int64(0); vl <= maxL; vl++ {
							emit(&CaseC08{Boxes: []ref.Box{{H: h, X: x, Y: y, V: 1, F: f}}, HL: hl, VL: vl})
						}
					}
				}
			}
		}
	}
	for h := int64(3); h <= 35; h++ {
		n := int64(1) << uint(h)
		for _, xy := range [][2]int64{{0, 0}, {n - 1, n - 1}, {0, n - 1}, {n / 2, 0}} {
			emit(&CaseC08{Boxes: []ref.Box{{H: h, X: xy[0], Y: xy[1], V: h, F: -(int64(1) << uint(h))}}, HL: 1, VL: 1})
			emit(&CaseC08{Boxes: []ref.Box{{H: h, X: xy[0], Y: xy[1], V: 0, F: 0}, {H: h, X: xy[1], Y: xy[0], V: 0, F: 0}}, HL: 2, VL: 0})
		}
	}
}

func init() {
	register(PropT[CaseC08]{
		ID:          "C08",
		Rule:        "rapid: a voxel (one third at h<=3, edge-weighted indices) plus 0..4 further voxels at the same zooms (duplicates, shifted by <=2, unrelated) x hLayers,vLayers in 0..4; the first voxel is used for the 6/8/26 queries, the list for the N-layer query. Sweep: all boxes at h<=2 x all layer pairs <=2; corner voxels at h=3..35. Non-trivial: first voxel on a grid edge, or h<=2, or list length>=2.",
		Assumptions: []string{"oracle: set/multiset comprehension over the stencil of the modular-shift reference", "the 6/8/26 queries are compared as multisets (they are not documented as de-duplicated); the N-layer query as a duplicate-free set"},
		Gen:         genC08, Check: checkC08, Classify: classifyC08, Sweep: sweepC08,
		SweepScopes: func(tier string) []string {
			return []string{"all boxes at h<=2 (f in {-2,-1,0}) x all (hLayers,vLayers) in 0..2 (exhaustive)", "h=3..35: 4 corner voxels, single and pair lists"}
		},
	})
}
