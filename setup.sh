#!/bin/bash
# Offline setup: build the harness from files on disk and run the reference model's own tests.
set -e
cd "$(dirname "$0")"
export GOFLAGS=-mod=mod GOPROXY=off GOSUMDB=off GOTOOLCHAIN=local
go test -count=1 ./ref
go test -c -vet=off -o .build/checks.test ./checks
go test -c -vet=off -race -o .build/checks-race.test ./checks
echo "setup ok"
